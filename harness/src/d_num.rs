//! Numeric drivers on f32/f64 through all planners: C01 (DFT definition), C02 (error growth),
//! C06 (round trip / conjugation), C07 (chunks), C08 (scratch purity), C15 (immutable input).
use crate::calls::{Entry, ALL_ENTRIES, SCRATCH_ENTRIES};
use crate::ctx::{hash2, Ctx, Elem, Planned};
use crate::mem::Align;
use crate::planners::{dir_name, AnyPlanner, Kind, ALL_KINDS, DIRS};
use crate::real::{all_finite, any_finite, bits_equal, err_q, gen_input, phase_digest, to_cdd, Real, ERRQ_SAT, FAMILIES};
use crate::refdft::{self, CDD};
use crate::types::DD;
use crate::util::{big_lengths, rader_primes, structured_lengths};
use rustfft::num_complex::Complex;
use rustfft::num_traits::Zero;
use rustfft::FftDirection;
use serde_json::{json, Value};

fn czero<T: Real>() -> Complex<T> {
    Complex::zero()
}
fn cfill<T: Real>(v: f64) -> Complex<T> {
    Complex { re: T::of_f64(v), im: T::of_f64(v) }
}

pub fn is_inv(d: FftDirection) -> bool {
    d == FftDirection::Inverse
}

fn planners_for<T: Real + Elem>(ctx: &mut Ctx) -> Vec<(u64, AnyPlanner<T>)> {
    let mut v = Vec::new();
    for k in ALL_KINDS {
        if let Some(p) = ctx.new_planner::<T>(k) {
            v.push(p);
        }
    }
    v
}

/// blocks of lengths: all of 1..=n_max in blocks of `block`, then structured lengths one per block
fn blocks(n_min: usize, n_max: usize, block: usize, structured_max: usize, per_block_structured: usize) -> Vec<Vec<usize>> {
    let all: Vec<usize> = (n_min..=n_max).collect();
    let mut out: Vec<Vec<usize>> = all.chunks(block).map(|c| c.to_vec()).collect();
    // dense structured lengths up to 8 * n_max, a sparse curated list beyond
    let dense_max = (8 * n_max).min(structured_max);
    let mut st: Vec<usize> = structured_lengths(dense_max as u64)
        .into_iter()
        .map(|x| x as usize)
        .filter(|&x| x > n_max)
        .collect();
    st.extend(big_lengths(dense_max as u64, structured_max as u64).into_iter().map(|x| x as usize));
    for c in st.chunks(per_block_structured.max(1)) {
        out.push(c.to_vec());
    }
    out
}

// ------------------------------------------------------------------------------------------------
// C01 / C02: accuracy against the double-double reference
// ------------------------------------------------------------------------------------------------
fn accuracy_block<T: Real + Elem>(ctx: &mut Ctx, lens: &[usize], c02: bool, light: bool) {
    let mut pls = planners_for::<T>(ctx);
    let basis_full = if ctx.quick() { 32 } else { 64 };
    let basis_some = if ctx.quick() { 128 } else { 256 };
    for &n in lens {
        let dirs: Vec<FftDirection> = if light { vec![DIRS[n % 2]] } else { DIRS.to_vec() };
        for d in dirs {
            // plan with every planner
            let mut planned: Vec<(Kind, Planned<T>)> = Vec::new();
            for (pid, p) in pls.iter_mut() {
                let kind = p.kind();
                ctx.case(format!("{} {} {} {}", kind.name(), T::ELEM, n, dir_name(d)), n >= 2);
                if let Some(pl) = ctx.plan(*pid, p, n, d, false) {
                    planned.push((kind, pl));
                }
            }
            // dense / structured vectors with references
            let fams: Vec<&str> = if light {
                if c02 { vec!["uniform", "const_nd"] } else { vec!["uniform"] }
            } else if c02 {
                FAMILIES.iter().copied().filter(|f| *f != "impulse").collect()
            } else {
                vec!["uniform", ["constant", "tone_on", "alternating", "normal", "const_nd", "real_only", "ramp", "spikes"][n % 8]]
            };
            for (fi, fam) in fams.iter().enumerate() {
                let x: Vec<Complex<T>> = gen_input(fam, n, 1 + n / 3, &mut ctx.rng);
                let reference = refdft::fft(&to_cdd(&x), is_inv(d));
                for (ki, (_kind, pl)) in planned.iter().enumerate() {
                    let entries: Vec<Entry> = if light {
                        vec![ALL_ENTRIES[(n + ki) % 4], ALL_ENTRIES[(n + ki + 2) % 4]]
                    } else if fi == 0 {
                        ALL_ENTRIES.to_vec()
                    } else {
                        vec![ALL_ENTRIES[(n + ki + fi) % 4]]
                    };
                    for e in entries {
                        let scratch = vec![czero::<T>(); pl.adv[e.scratch_index()]];
                        let out = vec![czero::<T>(); if e.two_buffers() { n } else { 0 }];
                        let rf = &reference;
                        ctx.call(pl, e, &x, &out, &scratch, None, json!({"family": fam}), |r| {
                            if r.panic.is_some() {
                                return vec![];
                            }
                            vec![json!({"kind": "err", "ref": "dft", "err_q": err_q(&r.result, rf)})]
                        });
                    }
                }
            }
            // impulses: the whole basis for small n, a few beyond
            if n >= 1 && (n <= basis_some) {
                let js: Vec<usize> = if n <= basis_full {
                    (0..n).collect()
                } else {
                    vec![1, n / 2 + 1, n - 1]
                };
                for j in js {
                    let x: Vec<Complex<T>> = gen_input("impulse", n, j, &mut ctx.rng);
                    for (ki, (_kind, pl)) in planned.iter().enumerate() {
                        let e = ALL_ENTRIES[(j + ki) % 4];
                        let scratch = vec![czero::<T>(); pl.adv[e.scratch_index()]];
                        let out = vec![czero::<T>(); if e.two_buffers() { n } else { 0 }];
                        ctx.call(pl, e, &x, &out, &scratch, None, json!({"family": "impulse", "j": j}), |r| {
                            if r.panic.is_some() {
                                return vec![];
                            }
                            if c02 {
                                // exact reference of an impulse: column j of the DFT matrix
                                let rf: Vec<CDD> = (0..n)
                                    .map(|k| {
                                        let t = refdft::twiddle(((j * k) % n) as u64, n as u64);
                                        if is_inv(d) {
                                            t.conj()
                                        } else {
                                            t
                                        }
                                    })
                                    .collect();
                                vec![json!({"kind": "err", "ref": "dft", "err_q": err_q(&r.result, &rf)})]
                            } else {
                                let (ph, ok) = phase_digest(&r.result);
                                vec![json!({"kind": "phase", "j": j, "phase": ph, "mag_ok": ok})]
                            }
                        });
                    }
                }
            }
        }
    }
}

pub fn run_accuracy(ctx: &mut Ctx, c02: bool) {
    let (n_max, s_max) = if ctx.quick() { (768, 1 << 17) } else { (4096, 1 << 20) };
    let bl = blocks(1, n_max, 8, s_max, 1);
    let mut item = 0usize;
    for b in &bl {
        for elem in ["f32", "f64"] {
            let idx = item;
            item += 1;
            let label = format!("acc {} n={}..{}", elem, b[0], b[b.len() - 1]);
            if !ctx.scenario(idx, &label) {
                continue;
            }
            if elem == "f32" {
                accuracy_block::<f32>(ctx, b, c02, false);
            } else {
                accuracy_block::<f64>(ctx, b, c02, false);
            }
        }
    }
    // every Rader-friendly prime (p-1 is 11-smooth) of the octaves above 2^16: one direction, one dense vector, two entries
    let (plo, phi) = if ctx.quick() { (1u64 << 16, 1u64 << 17) } else { (1u64 << 16, 1u64 << 20) };
    for p in rader_primes(plo, phi) {
        for elem in ["f32", "f64"] {
            let idx = item;
            item += 1;
            let label = format!("acc-rader-prime {} n={}", elem, p);
            if !ctx.scenario(idx, &label) {
                continue;
            }
            if elem == "f32" {
                accuracy_block::<f32>(ctx, &[p as usize], c02, true);
            } else {
                accuracy_block::<f64>(ctx, &[p as usize], c02, true);
            }
        }
    }
}

// ------------------------------------------------------------------------------------------------
// C06: forward/inverse round trip and conjugation identity (oracle-free)
// ------------------------------------------------------------------------------------------------
fn scale_ref<T: Real>(x: &[Complex<T>], n: usize) -> Vec<CDD> {
    x.iter()
        .map(|c| CDD::new(DD::from(c.re.to_f64()).mul_f64(n as f64), DD::from(c.im.to_f64()).mul_f64(n as f64)))
        .collect()
}

fn roundtrip_block<T: Real + Elem>(ctx: &mut Ctx, lens: &[usize]) {
    let mut pls = planners_for::<T>(ctx);
    // record the planners' cache/build steps for every third scenario (always for the whole scenario)
    let hooks = lens[0] % 3 == 0;
    for &n in lens {
        for (pid, p) in pls.iter_mut() {
            let kind = p.kind();
            ctx.case(format!("{} {} {}", kind.name(), T::ELEM, n), n >= 2);
            // both orders of planning the two directions on one planner
            let first = if (n + *pid as usize) % 2 == 0 { FftDirection::Forward } else { FftDirection::Inverse };
            let a = ctx.plan(*pid, p, n, first, hooks);
            let b = ctx.plan(*pid, p, n, first.opposite_direction(), hooks);
            let (fwd, inv) = match (a, b) {
                (Some(a), Some(b)) => {
                    if first == FftDirection::Forward {
                        (a, b)
                    } else {
                        (b, a)
                    }
                }
                _ => continue,
            };
            let fam = ["uniform", "normal", "tone_off", "spikes"][n % 4];
            let x: Vec<Complex<T>> = gen_input(fam, n, n / 2, &mut ctx.rng);
            let nx = scale_ref(&x, n);
            let e1 = ALL_ENTRIES[n % 4];
            let e2 = ALL_ENTRIES[(n / 4 + 1) % 4];
            // order A: forward then inverse; order B: inverse then forward
            for (t1, t2) in [(&fwd, &inv), (&inv, &fwd)] {
                let s1 = vec![czero::<T>(); t1.adv[e1.scratch_index()]];
                let o1 = vec![czero::<T>(); if e1.two_buffers() { n } else { 0 }];
                let r1 = ctx.call(t1, e1, &x, &o1, &s1, None, json!({"family": fam, "step": 1}), |r| {
                    if r.panic.is_some() {
                        return vec![];
                    }
                    // the intermediate spectrum is judged by C01; here only that it is finite
                    vec![json!({"kind": "err", "ref": "self", "err_q": if all_finite(&r.result) { 0 } else { ERRQ_SAT }})]
                });
                if r1.panic.is_some() {
                    continue;
                }
                let s2 = vec![czero::<T>(); t2.adv[e2.scratch_index()]];
                let o2 = vec![czero::<T>(); if e2.two_buffers() { n } else { 0 }];
                let nxr = &nx;
                ctx.call(t2, e2, &r1.result, &o2, &s2, None, json!({"family": fam, "step": 2}), |r| {
                    if r.panic.is_some() {
                        return vec![];
                    }
                    vec![json!({"kind": "err", "ref": "nx", "err_q": err_q(&r.result, nxr)})]
                });
            }
            // inverse(x) == conj(forward(conj(x)))
            let e3 = SCRATCH_ENTRIES[n % 3];
            let xc: Vec<Complex<T>> = x.iter().map(|c| c.conj()).collect();
            let s3 = vec![czero::<T>(); fwd.adv[e3.scratch_index()]];
            let o3 = vec![czero::<T>(); if e3.two_buffers() { n } else { 0 }];
            let rf = ctx.call(&fwd, e3, &xc, &o3, &s3, None, json!({"family": fam, "step": "conj-fwd"}), |r| {
                if r.panic.is_some() {
                    return vec![];
                }
                vec![json!({"kind": "err", "ref": "self", "err_q": if all_finite(&r.result) { 0 } else { ERRQ_SAT }})]
            });
            if rf.panic.is_some() {
                continue;
            }
            let expect: Vec<CDD> = rf.result.iter().map(|c| CDD::from_f64(c.re.to_f64(), -c.im.to_f64())).collect();
            let s4 = vec![czero::<T>(); inv.adv[e3.scratch_index()]];
            ctx.call(&inv, e3, &x, &o3, &s4, None, json!({"family": fam, "step": "conj-inv"}), |r| {
                if r.panic.is_some() {
                    return vec![];
                }
                vec![json!({"kind": "err", "ref": "conj", "err_q": err_q(&r.result, &expect)})]
            });
        }
    }
}

pub fn run_c06(ctx: &mut Ctx) {
    let (n_max, s_max) = if ctx.quick() { (1024, 1 << 20) } else { (8192, 1 << 22) };
    let mut bl = blocks(1, n_max, 16, s_max, 1);
    let (plo, phi) = if ctx.quick() { (1u64 << 15, 1u64 << 18) } else { (1u64 << 14, 1u64 << 20) };
    for p in rader_primes(plo, phi) {
        bl.push(vec![p as usize]);
    }
    let mut item = 0usize;
    for b in &bl {
        for elem in ["f32", "f64"] {
            let idx = item;
            item += 1;
            let label = format!("rt {} n={}..{}", elem, b[0], b[b.len() - 1]);
            if !ctx.scenario(idx, &label) {
                continue;
            }
            if elem == "f32" {
                roundtrip_block::<f32>(ctx, b);
            } else {
                roundtrip_block::<f64>(ctx, b);
            }
        }
    }
}

// ------------------------------------------------------------------------------------------------
// C07: k chunks = k independent transforms
// ------------------------------------------------------------------------------------------------
fn single_results<T: Real + Elem>(pl: &Planned<T>, x: &[Complex<T>], n: usize) -> Option<Vec<Vec<Complex<T>>>> {
    // each chunk alone through process_with_scratch (no events: this is the reference the property names)
    let mut v = Vec::new();
    for c in x.chunks(n) {
        let mut buf = c.to_vec();
        let mut s = vec![czero::<T>(); pl.adv[0]];
        let f = pl.fft.clone();
        let r = crate::calls::lib_catch((|| f.process_with_scratch(&mut buf, &mut s)));
        if r.is_err() {
            return None;
        }
        v.push(buf);
    }
    Some(v)
}

fn chunks_block<T: Real + Elem>(ctx: &mut Ctx, lens: &[usize]) {
    let mut pls = planners_for::<T>(ctx);
    // every third scenario also records the chunk-iteration steps of each call (hook H4)
    ctx.chunk_events = lens[0] % 3 == 1 && lens[0] < 200;
    for &n in lens {
        for (pid, p) in pls.iter_mut() {
            let kind = p.kind();
            let d = DIRS[(n + *pid as usize) % 2];
            let pl = match ctx.plan(*pid, p, n, d, false) {
                Some(pl) => pl,
                None => continue,
            };
            for (ei, e) in ALL_ENTRIES.iter().copied().enumerate() {
                // three chunk counts per entry, rotating so that 1..8 are all covered over consecutive n
                let ks = [1 + (n + ei) % 8, 1 + (n + ei + 3) % 8, 1 + (n + ei + 5) % 8];
                for (ki, k) in ks.into_iter().enumerate() {
                    ctx.case(format!("{} {} {} {} k{}", kind.name(), T::ELEM, n, e.name(), k), k >= 2);
                    let mut x: Vec<Complex<T>> = gen_input("uniform", n * k, 0, &mut ctx.rng);
                    // the third call mixes special-valued chunks among the dense ones (all zero, constant, one impulse): what a
                    // chunk holds must not influence how its neighbours (or it itself) are processed
                    let special = ki == 2 && k >= 2;
                    if special {
                        for c in 0..k {
                            let sel = (c + n + ei) % 4;
                            let chunk = &mut x[c * n..(c + 1) * n];
                            match sel {
                                1 => chunk.iter_mut().for_each(|v| *v = czero::<T>()),
                                2 => chunk.iter_mut().for_each(|v| *v = Complex { re: T::of_f64(1.0), im: T::of_f64(0.0) }),
                                3 => {
                                    chunk.iter_mut().for_each(|v| *v = czero::<T>());
                                    chunk[(c + 1) % n] = Complex { re: T::of_f64(1.0), im: T::of_f64(0.0) };
                                }
                                _ => {}
                            }
                        }
                    }
                    let singles = match single_results(&pl, &x, n) {
                        Some(s) => s,
                        None => continue,
                    };
                    // chunk independence holds for every admissible scratch: the special call of k >= 3 chunks gets twice the
                    // advertised length (more than one chunk's worth, less than one per chunk)
                    let slen = pl.adv[e.scratch_index()] * if special && k >= 3 { 2 } else { 1 };
                    let scratch = vec![czero::<T>(); slen];
                    let out = vec![czero::<T>(); if e.two_buffers() { n * k } else { 0 }];
                    ctx.call(&pl, e, &x, &out, &scratch, None, json!({"family": if special { "special-chunks" } else { "uniform" }, "k": k}), |r| {
                        if r.panic.is_some() {
                            return vec![];
                        }
                        let mut worst = 0i64;
                        let mut bit_equal = true;
                        for (c, s) in r.result.chunks(n).zip(&singles) {
                            worst = worst.max(err_q(c, &to_cdd(s)));
                            bit_equal &= bits_equal(c, s);
                        }
                        vec![json!({"kind": "err", "ref": "single", "err_q": worst, "bit_equal": bit_equal})]
                    });
                }
                if e == Entry::Process {
                    continue;
                }
                // isolation: every chunk but one is NaN
                let k = 2 + (n + ei) % 7;
                let clean = (n + 2 * ei) % k;
                let mut x: Vec<Complex<T>> = vec![cfill::<T>(f64::NAN); n * k];
                let good: Vec<Complex<T>> = gen_input("uniform", n, 0, &mut ctx.rng);
                x[clean * n..(clean + 1) * n].copy_from_slice(&good);
                let single = match single_results(&pl, &good, n) {
                    Some(s) => s,
                    None => continue,
                };
                let scratch = vec![czero::<T>(); pl.adv[e.scratch_index()]];
                let out = vec![czero::<T>(); if e.two_buffers() { n * k } else { 0 }];
                ctx.call(&pl, e, &x, &out, &scratch, None, json!({"family": "nan-neighbours", "k": k, "clean": clean + 1}), |r| {
                    if r.panic.is_some() {
                        return vec![];
                    }
                    let fin: Vec<bool> = r.result.chunks(n).map(|c| all_finite(c)).collect();
                    let any: Vec<bool> = r.result.chunks(n).map(|c| any_finite(c)).collect();
                    // a neighbour counts as tainted only if *no* element is finite; the clean chunk must be all finite
                    let finite: Vec<bool> = (0..k).map(|c| if c == clean { fin[c] } else { any[c] }).collect();
                    let e_clean = err_q(&r.result[clean * n..(clean + 1) * n], &to_cdd(&single[0]));
                    vec![
                        json!({"kind": "isolation", "finite": finite, "clean": clean + 1}),
                        json!({"kind": "err", "ref": "single", "err_q": e_clean}),
                    ]
                });
            }
        }
    }
}

pub fn run_c07(ctx: &mut Ctx) {
    let (n_max, s_max) = if ctx.quick() { (384, 1 << 13) } else { (2048, 1 << 16) };
    let bl = blocks(1, n_max, 8, s_max, 2);
    let mut item = 0usize;
    for b in &bl {
        for elem in ["f32", "f64"] {
            let idx = item;
            item += 1;
            let label = format!("chunks {} n={}..{}", elem, b[0], b[b.len() - 1]);
            if !ctx.scenario(idx, &label) {
                continue;
            }
            if elem == "f32" {
                chunks_block::<f32>(ctx, b);
            } else {
                chunks_block::<f64>(ctx, b);
            }
        }
    }
}

// ------------------------------------------------------------------------------------------------
// C08: scratch is pure workspace
// ------------------------------------------------------------------------------------------------
const CONTENTS: [&str; 5] = ["zero", "nan", "pinf", "ninf", "huge"];
fn content_value<T: Real>(c: &str) -> Complex<T> {
    match c {
        "zero" => czero::<T>(),
        "nan" => cfill::<T>(f64::NAN),
        "pinf" => cfill::<T>(f64::INFINITY),
        "ninf" => cfill::<T>(f64::NEG_INFINITY),
        _ => Complex { re: T::of_f64(T::HUGE), im: T::of_f64(-T::HUGE) },
    }
}

fn scratch_block<T: Real + Elem>(ctx: &mut Ctx, lens: &[usize]) {
    let mut pls = planners_for::<T>(ctx);
    for &n in lens {
        for (pid, p) in pls.iter_mut() {
            let kind = p.kind();
            let d = DIRS[(n / 2 + *pid as usize) % 2];
            let pl = match ctx.plan(*pid, p, n, d, false) {
                Some(pl) => pl,
                None => continue,
            };
            for (ei, e) in SCRATCH_ENTRIES.iter().copied().enumerate() {
                let k = 1 + (n + ei) % 5;
                let adv = pl.adv[e.scratch_index()];
                let x: Vec<Complex<T>> = gen_input("uniform", n * k, 0, &mut ctx.rng);
                let key = format!("{}:{}:{}:{}:{}", kind.name(), n, dir_name(d), e.name(), k);
                // reference run: exactly the advertised scratch, zero-filled scratch and output
                let s0 = vec![czero::<T>(); adv];
                let o0 = vec![czero::<T>(); if e.two_buffers() { n * k } else { 0 }];
                let cid = ctx.call_begin(pl.iid, e, &x, o0.len(), s0.len(), json!({"scratch_init": "zero", "out_init": "zero", "slen": "adv"}));
                let r0 = crate::calls::run_call(&*pl.fft, e, &x, &o0, &s0, None);
                let fin0 = all_finite(&r0.result);
                ctx.call_end(
                    cid,
                    &r0.panic,
                    if r0.panic.is_none() { vec![json!({"kind": "bits", "equal": true, "finite": fin0})] } else { vec![] },
                    "ref",
                    &key,
                    hash2(&r0.result),
                );
                if r0.panic.is_some() {
                    continue;
                }
                // variants: scratch length x scratch contents x output contents; 7 per entry, rotating over all pairs
                // (a scratch that is longer than advertised, also by whole multiples that do not reach one window per chunk)
                let lens_v = [("adv", adv), ("adv+1", adv + 1), ("adv+17", adv + 17), ("x2", adv * 2), ("x3+1", adv * 3 + 1),
                              ("xk-1", (adv * k).max(adv + 1) - 1)];
                for v in 0..7usize {
                    let t = n * 7 + v + ei * 3;
                    let (lname, slen) = lens_v[t % 6];
                    let sc = CONTENTS[(t / 4 + v) % 5];
                    let oc = CONTENTS[(t / 2 + 2 * v + 1) % 5];
                    ctx.case(format!("{} {} {} {} {} {} {}", kind.name(), T::ELEM, n, e.name(), lname, sc, oc), sc != "zero" || oc != "zero" || slen != adv);
                    let s = vec![content_value::<T>(sc); slen];
                    let o = vec![content_value::<T>(oc); if e.two_buffers() { n * k } else { 0 }];
                    let cid = ctx.call_begin(pl.iid, e, &x, o.len(), s.len(), json!({"scratch_init": sc, "out_init": oc, "slen": lname}));
                    let r = crate::calls::run_call(&*pl.fft, e, &x, &o, &s, None);
                    let obs = if r.panic.is_none() {
                        vec![json!({"kind": "bits", "equal": bits_equal(&r.result, &r0.result), "finite": all_finite(&r.result)})]
                    } else {
                        vec![]
                    };
                    ctx.call_end(cid, &r.panic, obs, "check", &key, hash2(&r.result));
                }
            }
        }
    }
}

pub fn run_c08(ctx: &mut Ctx) {
    let (n_max, s_max) = if ctx.quick() { (384, 1 << 14) } else { (2048, 1 << 17) };
    let bl = blocks(1, n_max, 8, s_max, 2);
    let mut item = 0usize;
    for b in &bl {
        for elem in ["f32", "f64"] {
            let idx = item;
            item += 1;
            let label = format!("scratch {} n={}..{}", elem, b[0], b[b.len() - 1]);
            if !ctx.scenario(idx, &label) {
                continue;
            }
            if elem == "f32" {
                scratch_block::<f32>(ctx, b);
            } else {
                scratch_block::<f64>(ctx, b);
            }
        }
    }
}

// ------------------------------------------------------------------------------------------------
// C15: the immutable-input entry never modifies its input (also when it panics)
// ------------------------------------------------------------------------------------------------
fn immut_block<T: Real + Elem>(ctx: &mut Ctx, lens: &[usize]) {
    let mut pls = planners_for::<T>(ctx);
    ctx.flush_calls = true;
    for &n in lens {
        for (pid, p) in pls.iter_mut() {
            let kind = p.kind();
            let d = DIRS[(n / 3 + *pid as usize) % 2];
            let pl = match ctx.plan(*pid, p, n, d, false) {
                Some(pl) => pl,
                None => continue,
            };
            let adv = pl.adv[2];
            // (data, out, scratch): well-shaped for several k, then ill-shaped classes
            let k1 = 1 + n % 8;
            let k2 = 1 + (n + 3) % 8;
            let mut shapes: Vec<(usize, usize, usize, &str)> = vec![
                (n * k1, n * k1, adv, "well"),
                (n * k2, n * k2, adv + 1, "well"),
                (n * k1 + 1, n * k1 + 1, adv, "ill-data"),
                (n * 2, n * 2 + 1, adv, "ill-out"),
                (n * 3, n * 2, adv, "ill-out"),
                (n.saturating_sub(1), n.saturating_sub(1), adv, "ill-short"),
            ];
            if adv > 0 {
                shapes.push((n * k2, n * k2, adv - 1, "ill-scratch"));
            }
            for (si, (dl, ol, sl, class)) in shapes.into_iter().enumerate() {
                ctx.case(format!("{} {} {} {} {}", kind.name(), T::ELEM, n, class, si), true);
                let x: Vec<Complex<T>> = gen_input("uniform", dl, 0, &mut ctx.rng);
                let out = vec![czero::<T>(); ol];
                let scratch = vec![cfill::<T>(f64::NAN); sl];
                let before = x.clone();
                let align = if (n + si) % 2 == 0 { Align::End } else { Align::Start };
                ctx.call(&pl, Entry::Immut, &x, &out, &scratch, Some(align), json!({"class": class}), move |r| {
                    vec![json!({"kind": "unchanged", "unchanged": bits_equal(&r.input_after, &before)})]
                });
            }
        }
    }
}

pub fn run_c15(ctx: &mut Ctx) -> usize {
    let (n_max, s_max) = if crate::ctx::light() {
        // unoptimised build (a write through a pointer derived from the shared input slice is undefined behaviour that an
        // optimised build may simply drop): small lengths, where every kernel and every helper variant is reached
        (if ctx.quick() { 72 } else { 300 }, 0)
    } else if ctx.quick() {
        (512, 1 << 15)
    } else {
        (4096, 1 << 18)
    };
    let bl = blocks(1, n_max, 8, s_max, 2);
    let mut item = 0usize;
    for b in &bl {
        for elem in ["f32", "f64"] {
            let idx = item;
            item += 1;
            let label = format!("immut {} n={}..{}", elem, b[0], b[b.len() - 1]);
            if !ctx.scenario(idx, &label) {
                continue;
            }
            if elem == "f32" {
                immut_block::<f32>(ctx, b);
            } else {
                immut_block::<f64>(ctx, b);
            }
        }
    }
    item
}

#[allow(dead_code)]
fn _unused(_: Value) {}
