//! Small utilities: deterministic PRNG, number theory helpers, structured length lists.

#[derive(Clone)]
pub struct Rng(u64);
impl Rng {
    pub fn new(seed: u64) -> Rng {
        Rng(seed.wrapping_mul(0x9E3779B97F4A7C15) ^ 0xD1B54A32D192ED03)
    }
    #[inline]
    pub fn next(&mut self) -> u64 {
        // splitmix64
        self.0 = self.0.wrapping_add(0x9E3779B97F4A7C15);
        let mut z = self.0;
        z = (z ^ (z >> 30)).wrapping_mul(0xBF58476D1CE4E5B9);
        z = (z ^ (z >> 27)).wrapping_mul(0x94D049BB133111EB);
        z ^ (z >> 31)
    }
    /// uniform in [0,1)
    #[inline]
    pub fn unit(&mut self) -> f64 {
        (self.next() >> 11) as f64 / (1u64 << 53) as f64
    }
    pub fn below(&mut self, n: u64) -> u64 {
        if n == 0 {
            0
        } else {
            self.next() % n
        }
    }
    /// standard normal (Box-Muller)
    pub fn normal(&mut self) -> f64 {
        let u1 = (self.unit() + 1e-300).min(1.0);
        let u2 = self.unit();
        (-2.0 * u1.ln()).sqrt() * (2.0 * std::f64::consts::PI * u2).cos()
    }
}

pub fn gcd(a: u64, b: u64) -> u64 {
    if b == 0 {
        a
    } else {
        gcd(b, a % b)
    }
}
pub fn lcm(a: u64, b: u64) -> Option<u64> {
    (a / gcd(a, b)).checked_mul(b)
}

pub fn is_prime_u64(n: u64) -> bool {
    if n < 2 {
        return false;
    }
    for p in [2u64, 3, 5, 7, 11, 13, 17, 19, 23, 29, 31, 37] {
        if n % p == 0 {
            return n == p;
        }
    }
    let mut d = n - 1;
    let mut s = 0;
    while d % 2 == 0 {
        d /= 2;
        s += 1;
    }
    'outer: for a in [2u64, 3, 5, 7, 11, 13, 17, 19, 23, 29, 31, 37] {
        let mut x = crate::types::powmod(a, d, n);
        if x == 1 || x == n - 1 {
            continue;
        }
        for _ in 0..s - 1 {
            x = crate::types::mulmod(x, x, n);
            if x == n - 1 {
                continue 'outer;
            }
        }
        return false;
    }
    true
}

pub fn prime_factors(mut n: u64) -> Vec<u64> {
    let mut f = Vec::new();
    let mut d = 2u64;
    while d * d <= n {
        if n % d == 0 {
            f.push(d);
            while n % d == 0 {
                n /= d;
            }
        }
        d += if d == 2 { 1 } else { 2 };
    }
    if n > 1 {
        f.push(n);
    }
    f
}

/// Lengths with interesting structure, up to `max`: primes by class (Rader-friendly / Bluestein),
/// Cunningham-like chains, prime powers, products of two primes, smooth numbers, powers of two and neighbours.
pub fn structured_lengths(max: u64) -> Vec<u64> {
    let mut v: Vec<u64> = Vec::new();
    // powers of small primes and neighbours
    for b in [2u64, 3, 5, 7, 11, 13] {
        let mut x = b;
        while x <= max {
            v.push(x);
            if x > 2 {
                v.push(x - 1);
            }
            if x + 1 <= max {
                v.push(x + 1);
            }
            x *= b;
        }
    }
    // smooth numbers 2^a 3^b 5^c 7^d 11^e (sampled)
    let mut smooth = vec![1u64];
    for p in [2u64, 3, 5, 7, 11] {
        let mut next = Vec::new();
        for &s in &smooth {
            let mut x = s;
            while x <= max {
                next.push(x);
                x *= p;
            }
        }
        smooth = next;
    }
    smooth.sort();
    let step = (smooth.len() / 400).max(1);
    for (i, s) in smooth.iter().enumerate() {
        if i % step == 0 || *s > max / 2 && i % (step / 4).max(1) == 0 {
            v.push(*s);
        }
    }
    // primes: near geometric grid points, both kinds
    let mut g = 37f64;
    while (g as u64) <= max {
        let base = g as u64;
        let mut found_rader = false;
        let mut found_blue = false;
        let mut c = base;
        while c <= max && c < base + 2000 && !(found_rader && found_blue) {
            if is_prime_u64(c) {
                let inner = prime_factors(c - 1);
                let rader = inner.iter().all(|&q| q <= 23);
                if rader && !found_rader {
                    v.push(c);
                    found_rader = true;
                }
                if !rader && !found_blue {
                    v.push(c);
                    found_blue = true;
                    // products with small factors and squares
                    for m in [2u64, 3, 4, 6, 8, 12, 16, 64] {
                        if c * m <= max {
                            v.push(c * m);
                        }
                    }
                }
            }
            c += 1;
        }
        g *= 1.37;
    }
    // Cunningham chain of the first kind (p, 2p+1, ...) and safe primes
    for start in [2u64, 89, 1122659] {
        let mut p = start;
        while p <= max && is_prime_u64(p) {
            v.push(p);
            p = 2 * p + 1;
        }
    }
    // products of two primes of similar size
    let mut q = 41u64;
    while q * q <= max {
        if is_prime_u64(q) {
            let mut r = q + 2;
            while !is_prime_u64(r) {
                r += 2;
            }
            if q * r <= max {
                v.push(q * r);
            }
            v.push(q * q);
            q = (q as f64 * 1.6) as u64 | 1;
        } else {
            q += 2;
        }
    }
    v.retain(|&x| x >= 1 && x <= max);
    v.sort();
    v.dedup();
    v
}

/// A sparse, curated list of large lengths: per octave in (lo, hi] one power of two, one 3*2^k, a 9*2^k*5*7 style
/// smooth number, a Rader-friendly prime, a Bluestein prime, a product of two primes, a prime times 2^k.
pub fn big_lengths(lo: u64, hi: u64) -> Vec<u64> {
    let mut v = Vec::new();
    let mut p2 = 1u64;
    while p2 <= hi {
        if p2 > lo {
            v.push(p2);
            let cands = [p2 / 4 * 3, p2 / 64 * 45, p2 / 128 * 77 * 2 / 2, p2 / 16 * 11];
            for c in cands {
                if c > lo && c <= hi {
                    v.push(c);
                }
            }
            // primes just below p2
            let mut c = p2 - 1;
            let (mut fr, mut fb) = (false, false);
            while c > p2 / 2 && !(fr && fb) {
                if is_prime_u64(c) {
                    let rader = prime_factors(c - 1).iter().all(|&q| q <= 23);
                    if rader && !fr {
                        fr = true;
                        v.push(c);
                    }
                    if !rader && !fb {
                        fb = true;
                        v.push(c);
                        if c * 6 <= hi {
                            v.push(c * 6);
                        }
                    }
                }
                c -= 1;
            }
            // product of two primes near sqrt(p2)
            let r = (p2 as f64).sqrt() as u64;
            let mut a = r | 1;
            while !is_prime_u64(a) {
                a += 2;
            }
            let mut b = a + 2;
            while !is_prime_u64(b) {
                b += 2;
            }
            if a * b > lo && a * b <= hi {
                v.push(a * b);
            }
        }
        p2 *= 2;
    }
    v.sort();
    v.dedup();
    v
}

/// All primes p in (lo, hi] whose p-1 has only the prime factors 2, 3, 5, 7, 11: the lengths every planner computes with
/// Rader's algorithm over a fast inner FFT (the AVX planner's RadersAvx2 index arithmetic changes regime at 2^16).
/// Safe primes n = 2q + 1 (q prime) in (lo, hi]: the lengths whose Rader reduction lands on twice a prime, i.e. the links of
/// Cunningham chains - the worst case for the work of a planner that may recurse through prime lengths.
pub fn safe_primes(lo: u64, hi: u64) -> Vec<u64> {
    let mut v = Vec::new();
    let mut n = lo + 1;
    while n <= hi {
        if n % 2 == 1 && is_prime_u64(n) && is_prime_u64((n - 1) / 2) {
            v.push(n);
        }
        n += 1;
    }
    v
}

pub fn rader_primes(lo: u64, hi: u64) -> Vec<u64> {
    let mut smooth = vec![1u64];
    for p in [2u64, 3, 5, 7, 11] {
        let mut next = Vec::new();
        for &s in &smooth {
            let mut x = s;
            while x < hi {
                next.push(x);
                x *= p;
            }
        }
        smooth = next;
    }
    let mut v: Vec<u64> = smooth.into_iter().map(|s| s + 1).filter(|&p| p > lo && p <= hi && is_prime_u64(p)).collect();
    v.sort();
    v.dedup();
    v
}

/// Lengths generated from a grammar of factorisation patterns 2^a * 3^b * p^c [* q]: the planners branch on the exponents of
/// 2 and 3 and on the number / size / multiplicity of the other prime factors, so every combination of a few representative
/// values of each is included (bounded by `max`).  Used for the plan-only sweeps, where a length costs microseconds.
pub fn pattern_lengths(max: u64) -> Vec<u64> {
    let twos = [0u32, 1, 2, 3, 5, 6, 7, 8, 10, 13];
    let threes = [0u32, 1, 2, 3, 5];
    let primes = [5u64, 7, 11, 13, 17, 29, 31, 37, 47, 59, 83, 101, 257, 641];
    let mut v = Vec::new();
    for &a in &twos {
        for &b in &threes {
            let base = match 2u64.checked_pow(a).and_then(|x| x.checked_mul(3u64.pow(b))) {
                Some(x) if x <= max => x,
                _ => continue,
            };
            v.push(base);
            for (i, &p) in primes.iter().enumerate() {
                for c in 1..=3u32 {
                    let x = match p.checked_pow(c).and_then(|y| y.checked_mul(base)) {
                        Some(x) if x <= max => x,
                        _ => break,
                    };
                    v.push(x);
                    // a second, different prime
                    for &q in primes.iter().skip(i + 1).step_by(3) {
                        if let Some(y) = x.checked_mul(q) {
                            if y <= max {
                                v.push(y);
                            }
                        }
                    }
                }
            }
        }
    }
    v.sort();
    v.dedup();
    v
}
