//! Element types used to drive RustFFT's generic code:
//!  Fp       - exact arithmetic in a prime field GF(p), p < 2^62 (run-time modulus)
//!  DD       - double-double (~106 bits)
//!  Counting - f64 that counts every +,-,*,/ performed on it
//!  Wide     - f64 padded to 24 bytes (size differs from f32/f64)
use rustfft::num_traits::{FromPrimitive, Num, One, Signed, Zero};
use std::cell::{Cell, RefCell};
use std::ops::{Add, Div, Mul, Neg, Rem, Sub};
use std::sync::atomic::{AtomicU64, Ordering};

// ------------------------------------------------------------------------------------------------
// Fp
// ------------------------------------------------------------------------------------------------
static FP_MOD: AtomicU64 = AtomicU64::new(2305843009213693951); // 2^61-1 (placeholder prime)

#[derive(Clone, Copy, PartialEq, Eq, Debug, Default)]
pub struct Fp(pub u64);

pub fn fp_set_modulus(p: u64) {
    FP_MOD.store(p, Ordering::SeqCst);
}
#[inline]
pub fn fp_modulus() -> u64 {
    FP_MOD.load(Ordering::Relaxed)
}
#[inline]
pub fn mulmod(a: u64, b: u64, p: u64) -> u64 {
    ((a as u128 * b as u128) % p as u128) as u64
}
pub fn powmod(mut a: u64, mut e: u64, p: u64) -> u64 {
    let mut r = 1u64 % p;
    a %= p;
    while e > 0 {
        if e & 1 == 1 {
            r = mulmod(r, a, p);
        }
        a = mulmod(a, a, p);
        e >>= 1;
    }
    r
}
pub fn invmod(a: u64, p: u64) -> u64 {
    powmod(a, p - 2, p)
}

/// How `Fp::from_f64` behaves on this thread.
pub enum F64Mode {
    /// pass 1: remember every argument, answer with a dummy non-zero value
    Record(Vec<f64>),
    /// pass 2: answer from the table (bit pattern -> field element); a miss is remembered
    Exact(std::collections::HashMap<u64, u64>, Vec<f64>),
}
thread_local! {
    pub static FP_F64: RefCell<F64Mode> = RefCell::new(F64Mode::Record(Vec::new()));
    /// set when generic code called something that is not a ring operation on the element type
    pub static NON_RING_OP: Cell<u32> = Cell::new(0);
}
fn non_ring() {
    NON_RING_OP.with(|c| c.set(c.get() + 1));
}

impl Add for Fp {
    type Output = Fp;
    #[inline]
    fn add(self, o: Fp) -> Fp {
        let p = fp_modulus();
        let s = self.0 + o.0;
        Fp(if s >= p { s - p } else { s })
    }
}
impl Sub for Fp {
    type Output = Fp;
    #[inline]
    fn sub(self, o: Fp) -> Fp {
        let p = fp_modulus();
        Fp(if self.0 >= o.0 { self.0 - o.0 } else { self.0 + p - o.0 })
    }
}
impl Mul for Fp {
    type Output = Fp;
    #[inline]
    fn mul(self, o: Fp) -> Fp {
        Fp(mulmod(self.0, o.0, fp_modulus()))
    }
}
impl Div for Fp {
    type Output = Fp;
    fn div(self, o: Fp) -> Fp {
        let p = fp_modulus();
        assert!(o.0 % p != 0, "Fp: division by zero");
        Fp(mulmod(self.0, invmod(o.0, p), p))
    }
}
impl Rem for Fp {
    type Output = Fp;
    fn rem(self, _o: Fp) -> Fp {
        non_ring();
        Fp(0)
    }
}
impl Neg for Fp {
    type Output = Fp;
    #[inline]
    fn neg(self) -> Fp {
        let p = fp_modulus();
        Fp(if self.0 == 0 { 0 } else { p - self.0 })
    }
}
impl Zero for Fp {
    fn zero() -> Fp {
        Fp(0)
    }
    fn is_zero(&self) -> bool {
        self.0 == 0
    }
}
impl One for Fp {
    fn one() -> Fp {
        Fp(1)
    }
}
impl Num for Fp {
    type FromStrRadixErr = ();
    fn from_str_radix(_s: &str, _r: u32) -> Result<Fp, ()> {
        non_ring();
        Err(())
    }
}
impl Signed for Fp {
    fn abs(&self) -> Fp {
        non_ring();
        *self
    }
    fn abs_sub(&self, _o: &Fp) -> Fp {
        non_ring();
        *self
    }
    fn signum(&self) -> Fp {
        non_ring();
        *self
    }
    fn is_positive(&self) -> bool {
        non_ring();
        true
    }
    fn is_negative(&self) -> bool {
        non_ring();
        false
    }
}
impl FromPrimitive for Fp {
    fn from_i64(n: i64) -> Option<Fp> {
        let p = fp_modulus() as i128;
        Some(Fp((((n as i128) % p + p) % p) as u64))
    }
    fn from_u64(n: u64) -> Option<Fp> {
        Some(Fp(n % fp_modulus()))
    }
    fn from_f32(n: f32) -> Option<Fp> {
        Self::from_f64(n as f64)
    }
    fn from_f64(x: f64) -> Option<Fp> {
        FP_F64.with(|m| match &mut *m.borrow_mut() {
            F64Mode::Record(v) => {
                v.push(x);
                Some(Fp(3))
            }
            F64Mode::Exact(table, misses) => match table.get(&x.to_bits()) {
                Some(v) => Some(Fp(*v)),
                None => {
                    misses.push(x);
                    Some(Fp(3))
                }
            },
        })
    }
}

// ------------------------------------------------------------------------------------------------
// DD: double-double
// ------------------------------------------------------------------------------------------------
#[derive(Clone, Copy, PartialEq, Debug, Default)]
pub struct DD {
    pub hi: f64,
    pub lo: f64,
}
#[inline]
fn two_sum(a: f64, b: f64) -> (f64, f64) {
    let s = a + b;
    let bb = s - a;
    let e = (a - (s - bb)) + (b - bb);
    (s, e)
}
#[inline]
fn quick_two_sum(a: f64, b: f64) -> (f64, f64) {
    let s = a + b;
    let e = b - (s - a);
    (s, e)
}
#[inline]
fn two_prod(a: f64, b: f64) -> (f64, f64) {
    let p = a * b;
    let e = a.mul_add(b, -p);
    (p, e)
}
impl DD {
    pub const ZERO: DD = DD { hi: 0.0, lo: 0.0 };
    #[inline]
    pub fn new(hi: f64, lo: f64) -> DD {
        DD { hi, lo }
    }
    #[inline]
    pub fn from(x: f64) -> DD {
        DD { hi: x, lo: 0.0 }
    }
    #[inline]
    pub fn to_f64(self) -> f64 {
        self.hi + self.lo
    }
    #[inline]
    pub fn mul_f64(self, b: f64) -> DD {
        let (p, e) = two_prod(self.hi, b);
        let e = e + self.lo * b;
        let (hi, lo) = quick_two_sum(p, e);
        DD { hi, lo }
    }
    pub fn is_finite(self) -> bool {
        self.hi.is_finite() && self.lo.is_finite()
    }
}
impl Add for DD {
    type Output = DD;
    #[inline]
    fn add(self, o: DD) -> DD {
        let (s, e) = two_sum(self.hi, o.hi);
        let (t, f) = two_sum(self.lo, o.lo);
        let e = e + t;
        let (s, e) = quick_two_sum(s, e);
        let e = e + f;
        let (hi, lo) = quick_two_sum(s, e);
        DD { hi, lo }
    }
}
impl Neg for DD {
    type Output = DD;
    #[inline]
    fn neg(self) -> DD {
        DD {
            hi: -self.hi,
            lo: -self.lo,
        }
    }
}
impl Sub for DD {
    type Output = DD;
    #[inline]
    fn sub(self, o: DD) -> DD {
        self + (-o)
    }
}
impl Mul for DD {
    type Output = DD;
    #[inline]
    fn mul(self, o: DD) -> DD {
        let (p, e) = two_prod(self.hi, o.hi);
        let e = e + (self.hi * o.lo + self.lo * o.hi);
        let (hi, lo) = quick_two_sum(p, e);
        DD { hi, lo }
    }
}
impl Div for DD {
    type Output = DD;
    fn div(self, o: DD) -> DD {
        let q1 = self.hi / o.hi;
        let r = self - o.mul_f64(q1);
        let q2 = r.hi / o.hi;
        let r = r - o.mul_f64(q2);
        let q3 = r.hi / o.hi;
        let (s, e) = quick_two_sum(q1, q2);
        DD { hi: s, lo: e } + DD::from(q3)
    }
}
impl Rem for DD {
    type Output = DD;
    fn rem(self, _o: DD) -> DD {
        non_ring();
        self
    }
}
impl Zero for DD {
    fn zero() -> DD {
        DD::ZERO
    }
    fn is_zero(&self) -> bool {
        self.hi == 0.0 && self.lo == 0.0
    }
}
impl One for DD {
    fn one() -> DD {
        DD::from(1.0)
    }
}
impl Num for DD {
    type FromStrRadixErr = ();
    fn from_str_radix(_s: &str, _r: u32) -> Result<DD, ()> {
        non_ring();
        Err(())
    }
}
impl Signed for DD {
    fn abs(&self) -> DD {
        non_ring();
        if self.hi < 0.0 {
            -*self
        } else {
            *self
        }
    }
    fn abs_sub(&self, o: &DD) -> DD {
        non_ring();
        *self - *o
    }
    fn signum(&self) -> DD {
        non_ring();
        DD::from(self.hi.signum())
    }
    fn is_positive(&self) -> bool {
        non_ring();
        self.hi > 0.0
    }
    fn is_negative(&self) -> bool {
        non_ring();
        self.hi < 0.0
    }
}
impl FromPrimitive for DD {
    fn from_i64(n: i64) -> Option<DD> {
        Some(DD::from(n as f64))
    }
    fn from_u64(n: u64) -> Option<DD> {
        Some(DD::from(n as f64))
    }
    fn from_f32(n: f32) -> Option<DD> {
        Some(DD::from(n as f64))
    }
    fn from_f64(n: f64) -> Option<DD> {
        Some(DD::from(n))
    }
}

// ------------------------------------------------------------------------------------------------
// Counting
// ------------------------------------------------------------------------------------------------
thread_local! {
    pub static OPS: Cell<u64> = Cell::new(0);
}
#[inline]
fn tick() {
    OPS.with(|c| c.set(c.get() + 1));
}
pub fn ops_reset() {
    OPS.with(|c| c.set(0));
}
pub fn ops_get() -> u64 {
    OPS.with(|c| c.get())
}

#[derive(Clone, Copy, PartialEq, Debug, Default)]
pub struct Counting(pub f64);
impl Add for Counting {
    type Output = Counting;
    #[inline]
    fn add(self, o: Counting) -> Counting {
        tick();
        Counting(self.0 + o.0)
    }
}
impl Sub for Counting {
    type Output = Counting;
    #[inline]
    fn sub(self, o: Counting) -> Counting {
        tick();
        Counting(self.0 - o.0)
    }
}
impl Mul for Counting {
    type Output = Counting;
    #[inline]
    fn mul(self, o: Counting) -> Counting {
        tick();
        Counting(self.0 * o.0)
    }
}
impl Div for Counting {
    type Output = Counting;
    #[inline]
    fn div(self, o: Counting) -> Counting {
        tick();
        Counting(self.0 / o.0)
    }
}
impl Rem for Counting {
    type Output = Counting;
    fn rem(self, o: Counting) -> Counting {
        non_ring();
        Counting(self.0 % o.0)
    }
}
impl Neg for Counting {
    type Output = Counting;
    #[inline]
    fn neg(self) -> Counting {
        Counting(-self.0)
    }
}
impl Zero for Counting {
    fn zero() -> Counting {
        Counting(0.0)
    }
    fn is_zero(&self) -> bool {
        self.0 == 0.0
    }
}
impl One for Counting {
    fn one() -> Counting {
        Counting(1.0)
    }
}
impl Num for Counting {
    type FromStrRadixErr = ();
    fn from_str_radix(_s: &str, _r: u32) -> Result<Counting, ()> {
        non_ring();
        Err(())
    }
}
impl Signed for Counting {
    fn abs(&self) -> Counting {
        non_ring();
        Counting(self.0.abs())
    }
    fn abs_sub(&self, o: &Counting) -> Counting {
        non_ring();
        Counting((self.0 - o.0).max(0.0))
    }
    fn signum(&self) -> Counting {
        non_ring();
        Counting(self.0.signum())
    }
    fn is_positive(&self) -> bool {
        non_ring();
        self.0 > 0.0
    }
    fn is_negative(&self) -> bool {
        non_ring();
        self.0 < 0.0
    }
}
impl FromPrimitive for Counting {
    fn from_i64(n: i64) -> Option<Counting> {
        Some(Counting(n as f64))
    }
    fn from_u64(n: u64) -> Option<Counting> {
        Some(Counting(n as f64))
    }
    fn from_f32(n: f32) -> Option<Counting> {
        Some(Counting(n as f64))
    }
    fn from_f64(n: f64) -> Option<Counting> {
        Some(Counting(n))
    }
}

// ------------------------------------------------------------------------------------------------
// Wide: 24 bytes
// ------------------------------------------------------------------------------------------------
#[derive(Clone, Copy, Debug)]
#[repr(C)]
pub struct Wide {
    pub v: f64,
    pub tag: [u64; 2],
}
const WIDE_TAG: [u64; 2] = [0xA5A5_5A5A_DEAD_BEEF, 0x0123_4567_89AB_CDEF];
impl Wide {
    #[inline]
    pub fn new(v: f64) -> Wide {
        Wide { v, tag: WIDE_TAG }
    }
    pub fn tag_ok(&self) -> bool {
        self.tag == WIDE_TAG
    }
}
impl PartialEq for Wide {
    fn eq(&self, o: &Wide) -> bool {
        self.v == o.v
    }
}
impl Add for Wide {
    type Output = Wide;
    #[inline]
    fn add(self, o: Wide) -> Wide {
        Wide::new(self.v + o.v)
    }
}
impl Sub for Wide {
    type Output = Wide;
    #[inline]
    fn sub(self, o: Wide) -> Wide {
        Wide::new(self.v - o.v)
    }
}
impl Mul for Wide {
    type Output = Wide;
    #[inline]
    fn mul(self, o: Wide) -> Wide {
        Wide::new(self.v * o.v)
    }
}
impl Div for Wide {
    type Output = Wide;
    #[inline]
    fn div(self, o: Wide) -> Wide {
        Wide::new(self.v / o.v)
    }
}
impl Rem for Wide {
    type Output = Wide;
    fn rem(self, o: Wide) -> Wide {
        non_ring();
        Wide::new(self.v % o.v)
    }
}
impl Neg for Wide {
    type Output = Wide;
    #[inline]
    fn neg(self) -> Wide {
        Wide::new(-self.v)
    }
}
impl Zero for Wide {
    fn zero() -> Wide {
        Wide::new(0.0)
    }
    fn is_zero(&self) -> bool {
        self.v == 0.0
    }
}
impl One for Wide {
    fn one() -> Wide {
        Wide::new(1.0)
    }
}
impl Num for Wide {
    type FromStrRadixErr = ();
    fn from_str_radix(_s: &str, _r: u32) -> Result<Wide, ()> {
        non_ring();
        Err(())
    }
}
impl Signed for Wide {
    fn abs(&self) -> Wide {
        non_ring();
        Wide::new(self.v.abs())
    }
    fn abs_sub(&self, o: &Wide) -> Wide {
        non_ring();
        Wide::new((self.v - o.v).max(0.0))
    }
    fn signum(&self) -> Wide {
        non_ring();
        Wide::new(self.v.signum())
    }
    fn is_positive(&self) -> bool {
        non_ring();
        self.v > 0.0
    }
    fn is_negative(&self) -> bool {
        non_ring();
        self.v < 0.0
    }
}
impl FromPrimitive for Wide {
    fn from_i64(n: i64) -> Option<Wide> {
        Some(Wide::new(n as f64))
    }
    fn from_u64(n: u64) -> Option<Wide> {
        Some(Wide::new(n as f64))
    }
    fn from_f32(n: f32) -> Option<Wide> {
        Some(Wide::new(n as f64))
    }
    fn from_f64(n: f64) -> Option<Wide> {
        Some(Wide::new(n))
    }
}
