//! Generic reader for Rust `Debug` output of plan reports, and conversion into the flat plan-tree
//! records that the TLA+ specification consumes (`spec/Recipe.tla`):
//!   nodes in post-order, each `{k: kind, p: [int params], ch: [1-based child indices]}`.
//! Unknown variant names are passed through as opaque kinds, so renamed/new recipe variants still parse.
use serde_json::{json, Value};

#[derive(Debug, Clone)]
pub enum Dbg {
    Num(u64),
    Ident(String),
    List(Vec<Dbg>),
    Node(String, Vec<(Option<String>, Dbg)>),
}

struct P<'a> {
    s: &'a [u8],
    i: usize,
}
impl<'a> P<'a> {
    fn ws(&mut self) {
        while self.i < self.s.len() && (self.s[self.i] as char).is_whitespace() {
            self.i += 1;
        }
    }
    fn peek(&mut self) -> Option<u8> {
        self.ws();
        self.s.get(self.i).copied()
    }
    fn eat(&mut self, c: u8) -> bool {
        if self.peek() == Some(c) {
            self.i += 1;
            true
        } else {
            false
        }
    }
    fn word(&mut self) -> String {
        self.ws();
        let st = self.i;
        while self.i < self.s.len() {
            let c = self.s[self.i] as char;
            if c.is_alphanumeric() || c == '_' {
                self.i += 1;
            } else {
                break;
            }
        }
        String::from_utf8_lossy(&self.s[st..self.i]).to_string()
    }
    fn value(&mut self) -> Result<Dbg, String> {
        match self.peek() {
            None => Err("unexpected end".into()),
            Some(b'[') => {
                self.i += 1;
                let mut v = Vec::new();
                loop {
                    if self.eat(b']') {
                        break;
                    }
                    v.push(self.value()?);
                    self.eat(b',');
                }
                Ok(Dbg::List(v))
            }
            Some(c) if (c as char).is_ascii_digit() => {
                let w = self.word();
                w.parse::<u64>().map(Dbg::Num).map_err(|e| format!("{}: {}", w, e))
            }
            Some(c) if (c as char).is_alphabetic() || c == b'_' => {
                let name = self.word();
                if self.eat(b'{') {
                    let mut f = Vec::new();
                    loop {
                        if self.eat(b'}') {
                            break;
                        }
                        let key = self.word();
                        if !self.eat(b':') {
                            return Err(format!("expected ':' after {}", key));
                        }
                        let v = self.value()?;
                        f.push((Some(key), v));
                        self.eat(b',');
                    }
                    Ok(Dbg::Node(name, f))
                } else if self.eat(b'(') {
                    let mut f = Vec::new();
                    loop {
                        if self.eat(b')') {
                            break;
                        }
                        f.push((None, self.value()?));
                        self.eat(b',');
                    }
                    Ok(Dbg::Node(name, f))
                } else {
                    Ok(Dbg::Ident(name))
                }
            }
            Some(c) => Err(format!("unexpected char {:?} at {}", c as char, self.i)),
        }
    }
}

pub fn parse_debug(s: &str) -> Result<Dbg, String> {
    let mut p = P { s: s.as_bytes(), i: 0 };
    let v = p.value()?;
    p.ws();
    if p.i != p.s.len() {
        return Err(format!("trailing input at {}", p.i));
    }
    Ok(v)
}

/// Flat post-order plan tree
#[derive(Default, Debug, Clone)]
pub struct Flat {
    pub nodes: Vec<Value>,
}
impl Flat {
    pub fn push(&mut self, k: &str, p: Vec<u64>, ch: Vec<usize>) -> usize {
        self.nodes.push(json!({"k": k, "p": p, "ch": ch}));
        self.nodes.len() // 1-based index of the node just pushed
    }
    pub fn to_json(&self) -> Value {
        Value::Array(self.nodes.clone())
    }
}

fn trailing_number(name: &str) -> Option<(String, u64)> {
    let idx = name.find(|c: char| c.is_ascii_digit())?;
    let (a, b) = name.split_at(idx);
    if b.chars().all(|c| c.is_ascii_digit()) {
        Some((a.to_string(), b.parse().ok()?))
    } else {
        None
    }
}

/// Convert a scalar/SSE `Recipe` Debug tree. Returns the index of the root.
pub fn flatten_recipe(d: &Dbg, out: &mut Flat) -> usize {
    match d {
        Dbg::Ident(name) => {
            // ButterflyN
            if let Some((base, n)) = trailing_number(name) {
                out.push(&base, vec![n], vec![])
            } else {
                out.push(name, vec![], vec![])
            }
        }
        Dbg::Num(n) => out.push("Num", vec![*n], vec![]),
        Dbg::List(items) => {
            let ch: Vec<usize> = items.iter().map(|i| flatten_recipe(i, out)).collect();
            out.push("List", vec![], ch)
        }
        Dbg::Node(name, fields) => {
            let mut params = Vec::new();
            let mut ch = Vec::new();
            for (_k, v) in fields {
                match v {
                    Dbg::Num(n) => params.push(*n),
                    Dbg::List(items) => {
                        // RadixN factors: [Factor4, Factor2, ...] -> params
                        for it in items {
                            match it {
                                Dbg::Ident(s) => {
                                    if let Some((_, n)) = trailing_number(s) {
                                        params.push(n)
                                    }
                                }
                                Dbg::Num(n) => params.push(*n),
                                other => ch.push(flatten_recipe(other, out)),
                            }
                        }
                    }
                    other => ch.push(flatten_recipe(other, out)),
                }
            }
            out.push(name, params, ch)
        }
    }
}

/// AVX `MixedRadixPlan { len, radixes: [..], base: X(..) }`. `inner` resolves Rader/Bluestein inner plans
/// (it is given the inner length and must return the Debug text of the inner plan).
pub fn flatten_avx(
    d: &Dbg,
    out: &mut Flat,
    inner: &mut dyn FnMut(u64) -> Result<String, String>,
    depth: usize,
) -> Result<usize, String> {
    let fields = match d {
        Dbg::Node(_, f) => f,
        _ => return Err("not a plan node".into()),
    };
    let mut radixes: Vec<u64> = vec![];
    let mut base: Option<&Dbg> = None;
    for (k, v) in fields {
        match (k.as_deref(), v) {
            (Some("radixes"), Dbg::List(items)) => {
                radixes = items
                    .iter()
                    .filter_map(|i| if let Dbg::Num(n) = i { Some(*n) } else { None })
                    .collect()
            }
            (Some("base"), b) => base = Some(b),
            _ => {}
        }
    }
    let base = base.ok_or("plan without base")?;
    let (bname, bargs): (String, Vec<u64>) = match base {
        Dbg::Node(n, f) => (
            n.clone(),
            f.iter()
                .filter_map(|(_, v)| if let Dbg::Num(x) = v { Some(*x) } else { None })
                .collect(),
        ),
        Dbg::Ident(n) => (n.clone(), vec![]),
        _ => return Err("bad base".into()),
    };
    let mut cur = match bname.as_str() {
        "RadersBase" | "BluesteinsBase" if depth < 8 => {
            let inner_len = if bname == "RadersBase" { bargs[0] - 1 } else { bargs[1] };
            let txt = inner(inner_len)?;
            let sub = parse_debug(&txt)?;
            let ci = flatten_avx(&sub, out, inner, depth + 1)?;
            out.push(&bname, bargs.clone(), vec![ci])
        }
        _ => out.push(&bname, bargs.clone(), vec![]),
    };
    for r in radixes {
        cur = out.push("AvxRadix", vec![r], vec![cur]);
    }
    Ok(cur)
}
