//! f32/f64 helpers: conversion, digests against the double-double reference (DESIGN.md 3.4).
use crate::refdft::CDD;
use crate::types::DD;
use crate::util::Rng;
use rustfft::num_complex::Complex;
use rustfft::FftNum;

pub trait Real: FftNum + PartialEq {
    const NAME: &'static str;
    const EPS: f64;
    const HUGE: f64;
    fn to_f64(self) -> f64;
    fn of_f64(x: f64) -> Self;
    fn bits(self) -> u64;
    fn finite(self) -> bool;
}
impl Real for f32 {
    const NAME: &'static str = "f32";
    const EPS: f64 = 1.1920928955078125e-7; // 2^-23
    const HUGE: f64 = 3.0e38;
    fn to_f64(self) -> f64 {
        self as f64
    }
    fn of_f64(x: f64) -> f32 {
        x as f32
    }
    fn bits(self) -> u64 {
        self.to_bits() as u64
    }
    fn finite(self) -> bool {
        self.is_finite()
    }
}
impl Real for f64 {
    const NAME: &'static str = "f64";
    const EPS: f64 = 2.220446049250313e-16; // 2^-52
    const HUGE: f64 = 1.0e308;
    fn to_f64(self) -> f64 {
        self
    }
    fn of_f64(x: f64) -> f64 {
        x
    }
    fn bits(self) -> u64 {
        self.to_bits()
    }
    fn finite(self) -> bool {
        self.is_finite()
    }
}

pub const ERRQ_SAT: i64 = 1 << 30;

pub fn to_cdd<T: Real>(x: &[Complex<T>]) -> Vec<CDD> {
    x.iter().map(|c| CDD::from_f64(c.re.to_f64(), c.im.to_f64())).collect()
}

/// ceil(2^10 * relL2(out - reference) / eps), saturated at 2^30 (also for non-finite outputs)
pub fn err_q<T: Real>(out: &[Complex<T>], reference: &[CDD]) -> i64 {
    assert_eq!(out.len(), reference.len());
    let mut num = 0.0f64;
    let mut den = 0.0f64;
    for (o, r) in out.iter().zip(reference) {
        if !o.re.finite() || !o.im.finite() {
            return ERRQ_SAT;
        }
        let dr = (DD::from(o.re.to_f64()) - r.re).to_f64();
        let di = (DD::from(o.im.to_f64()) - r.im).to_f64();
        num += dr * dr + di * di;
        den += r.norm_sqr_f64();
    }
    if num == 0.0 {
        return 0;
    }
    if den == 0.0 {
        return ERRQ_SAT;
    }
    let rel = (num / den).sqrt();
    let q = (1024.0 * rel / T::EPS).ceil();
    if !(q < ERRQ_SAT as f64) {
        ERRQ_SAT
    } else {
        q as i64
    }
}

/// For the response to a unit impulse: phase[k] = round(arg(X[k]) * n / 2pi) mod n, and whether
/// every |X[k]| is within 1e-3 of 1 and every phase is within 0.05 of a grid point.
pub fn phase_digest<T: Real>(out: &[Complex<T>]) -> (Vec<i64>, bool) {
    let n = out.len();
    let mut ok = true;
    let mut ph = Vec::with_capacity(n);
    for c in out {
        let (re, im) = (c.re.to_f64(), c.im.to_f64());
        if !re.is_finite() || !im.is_finite() {
            ok = false;
            ph.push(-1);
            continue;
        }
        let mag = (re * re + im * im).sqrt();
        if (mag - 1.0).abs() > 1e-3 {
            ok = false;
        }
        let t = im.atan2(re) * n as f64 / (2.0 * std::f64::consts::PI);
        let r = t.round();
        if (t - r).abs() > 0.05 {
            ok = false;
        }
        ph.push((r as i64).rem_euclid(n as i64));
    }
    (ph, ok)
}

pub fn bits_of<T: Real>(x: &[Complex<T>]) -> Vec<(u64, u64)> {
    x.iter().map(|c| (c.re.bits(), c.im.bits())).collect()
}
pub fn bits_equal<T: Real>(a: &[Complex<T>], b: &[Complex<T>]) -> bool {
    a.len() == b.len() && a.iter().zip(b).all(|(x, y)| x.re.bits() == y.re.bits() && x.im.bits() == y.im.bits())
}
pub fn all_finite<T: Real>(a: &[Complex<T>]) -> bool {
    a.iter().all(|c| c.re.finite() && c.im.finite())
}
pub fn any_finite<T: Real>(a: &[Complex<T>]) -> bool {
    a.iter().any(|c| c.re.finite() && c.im.finite())
}

pub const FAMILIES: [&str; 13] = [
    "uniform", "normal", "constant", "tone_on", "tone_off", "alternating", "spikes", "wide", "const_nd", "dc_ripple", "real_only", "ramp",
    "impulse",
];

/// Input vectors by family name; `param` selects the impulse position / tone frequency.
pub fn gen_input<T: Real>(family: &str, n: usize, param: usize, rng: &mut Rng) -> Vec<Complex<T>> {
    let c = |re: f64, im: f64| Complex { re: T::of_f64(re), im: T::of_f64(im) };
    match family {
        "impulse" => {
            let mut v = vec![c(0.0, 0.0); n];
            if n > 0 {
                v[param % n] = c(1.0, 0.0);
            }
            v
        }
        "uniform" => (0..n).map(|_| c(2.0 * rng.unit() - 1.0, 2.0 * rng.unit() - 1.0)).collect(),
        "normal" => (0..n).map(|_| c(rng.normal(), rng.normal())).collect(),
        "constant" => vec![c(0.75, -0.5); n],
        // non-dyadic constant: every partial sum rounds, all in the same direction (the worst case for a running sum)
        "const_nd" => vec![c(0.3, -0.7); n],
        // a large DC component with a small ripple
        "dc_ripple" => (0..n).map(|_| c(0.1 + 1e-3 * (rng.unit() - 0.5), 0.1 + 1e-3 * (rng.unit() - 0.5))).collect(),
        // purely real data (the common use)
        "real_only" => (0..n).map(|_| c(2.0 * rng.unit() - 1.0, 0.0)).collect(),
        // smooth, non-zero mean
        "ramp" => (0..n).map(|j| c((j as f64 + 0.3) / (n as f64), 1.0 - (j as f64) / (n as f64 + 0.7))).collect(),
        "tone_on" => {
            let f = (param % n.max(1)) as f64;
            (0..n)
                .map(|j| {
                    let a = 2.0 * std::f64::consts::PI * f * j as f64 / n as f64;
                    c(a.cos(), a.sin())
                })
                .collect()
        }
        "tone_off" => {
            let f = (param % n.max(1)) as f64 + 0.37;
            (0..n)
                .map(|j| {
                    let a = 2.0 * std::f64::consts::PI * f * j as f64 / n as f64;
                    c(a.cos(), a.sin())
                })
                .collect()
        }
        "alternating" => (0..n).map(|j| if j % 2 == 0 { c(1.0, 0.5) } else { c(-1.0, -0.5) }).collect(),
        "spikes" => {
            let mut v = vec![c(0.0, 0.0); n];
            let k = (n / 16).max(1).min(n);
            for _ in 0..k {
                let j = rng.below(n as u64) as usize;
                v[j] = c(2.0 * rng.unit() - 1.0, 2.0 * rng.unit() - 1.0);
            }
            v
        }
        "wide" => {
            // wide dynamic range, within the finite normal range: 2^+-20 (f32) or 2^+-200 (f64)
            let e = if T::NAME == "f32" { 20.0 } else { 200.0 };
            (0..n)
                .map(|_| {
                    let s = (2.0f64).powf((2.0 * rng.unit() - 1.0) * e);
                    c(s * (2.0 * rng.unit() - 1.0), s * (2.0 * rng.unit() - 1.0))
                })
                .collect()
        }
        _ => panic!("unknown family {}", family),
    }
}
