//! Driver context: trace writer, id allocation, planner / plan / call event helpers.
use crate::calls::{advertised, msg_class, run_call, CallResult, Entry};
use crate::ev::Trace;
use crate::mem::Align;
use crate::planners::{dir_name, AnyPlanner, Kind, NewResult};
use crate::util::Rng;
use rustfft::num_complex::Complex;
use rustfft::verif_hooks::{self, VerifEvent};
use rustfft::{Fft, FftDirection, FftNum};
use serde_json::{json, Value};
use std::sync::Arc;

pub trait Elem: FftNum {
    const ELEM: &'static str;
}
impl Elem for f32 {
    const ELEM: &'static str = "f32";
}
impl Elem for f64 {
    const ELEM: &'static str = "f64";
}
impl Elem for crate::types::Fp {
    const ELEM: &'static str = "fp";
}
impl Elem for crate::types::DD {
    const ELEM: &'static str = "dd";
}
impl Elem for crate::types::Counting {
    const ELEM: &'static str = "cnt";
}
impl Elem for crate::types::Wide {
    const ELEM: &'static str = "wide";
}

#[derive(Clone, Copy, PartialEq, Debug)]
pub enum Tier {
    Quick,
    Thorough,
}

pub struct Ctx {
    pub tr: Trace,
    pub rng: Rng,
    pub seed: u64,
    pub tier: Tier,
    pub shard: usize,
    pub shards: usize,
    pub prop: String,
    next_pid: u64,
    next_iid: u64,
    next_cid: u64,
    pub scenarios: u64,
    /// flush the trace before every call (so that a crash can be attributed)
    pub flush_calls: bool,
    /// record the chunk-iteration steps (hook H4) of every call made through `call`
    pub chunk_events: bool,
    /// annotated tree to attach to the next Construct event (faithful scratch model)
    pub construct_tree: Option<Value>,
    /// replay filter: run only scenarios with exactly this label
    pub only: Option<String>,
    cases: std::collections::HashSet<String>,
    pub nontrivial: u64,
}

/// RFV_LIGHT=1: reduced sweeps for slow (unoptimised / sanitizer) builds of the harness
pub fn light() -> bool {
    std::env::var("RFV_LIGHT").map(|v| v == "1").unwrap_or(false)
}

pub fn compiled_features() -> Vec<&'static str> {
    let mut v = vec![];
    if cfg!(feature = "avx") {
        v.push("avx");
    }
    if cfg!(feature = "sse") {
        v.push("sse");
    }
    v
}

/// CPU capability bits as RustFFT sees them: real detection AND the verification mask
pub fn effective_caps() -> u32 {
    let mut caps = 0;
    if std::is_x86_feature_detected!("sse4.1") {
        caps |= verif_hooks::MASK_SSE41;
    }
    if std::is_x86_feature_detected!("avx") {
        caps |= verif_hooks::MASK_AVX;
    }
    if std::is_x86_feature_detected!("fma") {
        caps |= verif_hooks::MASK_FMA;
    }
    if std::is_x86_feature_detected!("avx2") {
        caps |= verif_hooks::MASK_AVX2;
    }
    caps & verif_hooks::feature_mask()
}

pub fn hash2<T: FftNum>(x: &[Complex<T>]) -> [u32; 2] {
    // FNV-1a over the raw bytes of the slice, split into two 30-bit halves (TLC integers are 32-bit)
    let bytes = unsafe { std::slice::from_raw_parts(x.as_ptr() as *const u8, std::mem::size_of_val(x)) };
    let mut h: u64 = 0xcbf29ce484222325;
    for b in bytes {
        h ^= *b as u64;
        h = h.wrapping_mul(0x100000001b3);
    }
    h ^= h >> 29;
    [(h & 0x3fff_ffff) as u32, ((h >> 30) & 0x3fff_ffff) as u32]
}

pub struct Planned<T: FftNum> {
    pub iid: u64,
    pub fft: Arc<dyn Fft<T>>,
    pub n: usize,
    pub dir: FftDirection,
    pub adv: [usize; 3],
}

impl Ctx {
    pub fn new(path: &str, prop: &str, seed: u64, tier: Tier, shard: usize, shards: usize) -> Ctx {
        Ctx {
            tr: Trace::create(path),
            rng: Rng::new(seed ^ (shard as u64) << 32),
            seed,
            tier,
            shard,
            shards,
            prop: prop.to_string(),
            next_pid: 0,
            next_iid: 0,
            next_cid: 0,
            scenarios: 0,
            flush_calls: false,
            chunk_events: false,
            construct_tree: None,
            only: None,
            cases: Default::default(),
            nontrivial: 0,
        }
    }
    pub fn mine(&self, idx: usize) -> bool {
        idx % self.shards == self.shard
    }
    pub fn quick(&self) -> bool {
        self.tier == Tier::Quick
    }

    /// count a case as explored; distinct non-trivial cases are reported in the evidence
    pub fn case(&mut self, key: String, nontrivial: bool) {
        if nontrivial && self.cases.insert(key) {
            self.nontrivial += 1;
        }
    }

    /// Should work item `idx` with scenario label `label` run in this process? If so a new scenario starts.
    pub fn scenario(&mut self, idx: usize, label: &str) -> bool {
        if !self.mine(idx) {
            return false;
        }
        if let Some(o) = &self.only {
            if o != label {
                return false;
            }
        }
        self.reset(label);
        true
    }

    /// start a new scenario
    pub fn reset(&mut self, label: &str) {
        self.scenarios += 1;
        self.tr.emit(
            "Reset",
            json!({"prop": self.prop, "features": compiled_features(), "mask": effective_caps(), "label": label}),
        );
    }

    pub fn new_planner<T: Elem>(&mut self, kind: Kind) -> Option<(u64, AnyPlanner<T>)> {
        self.next_pid += 1;
        let pid = self.next_pid;
        let (result, backend, planner) = match AnyPlanner::<T>::new(kind) {
            NewResult::Ok(p) => ("ok", p.backend(), Some(p)),
            NewResult::Err => ("err", "na", None),
            NewResult::Panic(_) => ("panic", "na", None),
        };
        self.tr.emit(
            "NewPlanner",
            json!({"pid": pid, "kind": kind.name(), "elem": T::ELEM, "result": result, "backend": backend}),
        );
        planner.map(|p| (pid, p))
    }

    /// Planner constructors of different element types interleaved in one process: whether a SIMD planner accepts an element
    /// type must not depend on which types were served before (process-wide state behind `FftPlanner::new`).
    pub fn mixed_type_constructors(&mut self) {
        let _ = self.new_planner::<f32>(Kind::Auto);
        let _ = self.new_planner::<crate::types::Counting>(Kind::Auto);
        let _ = self.new_planner::<f64>(Kind::Auto);
        let _ = self.new_planner::<crate::types::Wide>(Kind::Auto);
        let _ = self.new_planner::<crate::types::Counting>(Kind::Avx);
        let _ = self.new_planner::<f32>(Kind::Avx);
        let _ = self.new_planner::<crate::types::DD>(Kind::Sse);
        let _ = self.new_planner::<f64>(Kind::Sse);
        let _ = self.new_planner::<f32>(Kind::Auto);
    }

    pub fn drop_planner<T: Elem>(&mut self, pid: u64, planner: AnyPlanner<T>) {
        drop(planner);
        self.tr.emit("DropPlanner", json!({ "pid": pid }));
    }

    fn emit_hook_events(&mut self, evs: Vec<VerifEvent>) {
        for e in evs {
            match e {
                VerifEvent::CacheGet { len, inverse, hit } => self.tr.emit(
                    "CacheGet",
                    json!({"len": len, "dir": if inverse {"I"} else {"F"}, "hit": hit}),
                ),
                VerifEvent::CacheInsert { len, inverse } => {
                    self.tr.emit("CacheInsert", json!({"len": len, "dir": if inverse {"I"} else {"F"}}))
                }
                VerifEvent::Build { desc, len, inverse, scratch } => self.tr.emit(
                    "Build",
                    // "RadersBase(37)" -> kind RadersBase; the full text is kept in `desc`
                    json!({"kind": desc.split(|c: char| c == '(' || c == ' ' || c == '{').next().unwrap_or(""), "desc": desc, "len": len, "dir": if inverse {"I"} else {"F"}, "scr": scratch}),
                ),
                VerifEvent::Enter { variant, chunk, len1, len2, scratch, required, depth } => self.tr.emit(
                    "Enter",
                    json!({"variant": variant, "chunk": chunk, "len1": len1, "len2": len2, "scratch": scratch, "required": required, "depth": depth}),
                ),
                VerifEvent::Chunk { depth, width, remaining } => {
                    self.tr.emit("Chunk", json!({"depth": depth, "width": width, "remaining": remaining}))
                }
                VerifEvent::Leave { depth } => self.tr.emit("Leave", json!({ "depth": depth })),
            }
        }
    }

    /// plan_fft on a real planner; `hooks` records the cache / build steps in between
    pub fn plan<T: Elem>(
        &mut self,
        pid: u64,
        planner: &mut AnyPlanner<T>,
        n: usize,
        dir: FftDirection,
        hooks: bool,
    ) -> Option<Planned<T>> {
        self.tr
            .emit("PlanBegin", json!({"pid": pid, "n": n, "dir": dir_name(dir)}));
        if self.flush_calls {
            self.tr.flush();
        }
        if hooks {
            verif_hooks::start_recording(false);
        }
        let r = planner.plan(n, dir);
        if hooks {
            let evs = verif_hooks::take_events();
            self.emit_hook_events(evs);
        }
        self.next_iid += 1;
        let iid = self.next_iid;
        match r {
            Ok(fft) => {
                let adv = advertised(&*fft);
                self.tr.emit(
                    "PlanEnd",
                    json!({"pid": pid, "iid": iid, "outcome": "ok", "len": fft.len(),
                           "rdir": dir_name(fft.fft_direction()), "scr": adv}),
                );
                Some(Planned { iid, fft, n, dir, adv })
            }
            Err(msg) => {
                self.tr.emit(
                    "PlanEnd",
                    json!({"pid": pid, "iid": iid, "outcome": "panic", "len": 0, "rdir": "F", "scr": [0,0,0],
                           "msg": msg.chars().take(200).collect::<String>()}),
                );
                None
            }
        }
    }

    /// register a transform assembled from public constructors
    pub fn construct<T: Elem>(
        &mut self,
        n: usize,
        dir: FftDirection,
        desc: &str,
        built: Result<Arc<dyn Fft<T>>, String>,
    ) -> Option<Planned<T>> {
        self.next_iid += 1;
        let iid = self.next_iid;
        let tree = self.construct_tree.take().unwrap_or(json!([]));
        match built {
            Ok(fft) => {
                let adv = advertised(&*fft);
                self.tr.emit(
                    "Construct",
                    json!({"iid": iid, "elem": T::ELEM, "outcome": "ok", "n": n, "dir": dir_name(dir), "len": fft.len(),
                           "rdir": dir_name(fft.fft_direction()), "scr": adv, "desc": desc, "tree": tree}),
                );
                Some(Planned { iid, fft, n, dir, adv })
            }
            Err(msg) => {
                self.tr.emit(
                    "Construct",
                    json!({"iid": iid, "elem": T::ELEM, "outcome": "panic", "n": n, "dir": dir_name(dir), "len": 0,
                           "rdir": "F", "scr": [0,0,0], "desc": desc, "tree": [], "msg": msg.chars().take(200).collect::<String>()}),
                );
                None
            }
        }
    }

    pub fn call_begin<T: FftNum>(
        &mut self,
        iid: u64,
        entry: Entry,
        input: &[Complex<T>],
        out_len: usize,
        scratch_len: usize,
        extra: Value,
    ) -> u64 {
        self.next_cid += 1;
        let cid = self.next_cid;
        let mut v = json!({"cid": cid, "iid": iid, "entry": entry.name(), "data": input.len(),
                           "out": out_len, "scratch": scratch_len, "inh": hash2(input)});
        if let (Some(o), Some(e)) = (v.as_object_mut(), extra.as_object()) {
            for (k, val) in e {
                o.insert(k.clone(), val.clone());
            }
        }
        self.tr.emit("CallBegin", v);
        if self.flush_calls {
            self.tr.flush();
        }
        cid
    }

    pub fn call_end(&mut self, cid: u64, panic: &Option<String>, obs: Vec<Value>, role: &str, key: &str, outh: [u32; 2]) {
        let (outcome, cls) = match panic {
            None => ("ok", ""),
            Some(m) => ("panic", msg_class(m)),
        };
        self.tr.emit(
            "CallEnd",
            json!({"cid": cid, "outcome": outcome, "msg_class": cls, "obs": obs, "role": role, "key": key, "outh": outh}),
        );
    }

    /// CallBegin + the call + (caller-computed observations) + CallEnd
    pub fn call<T: Elem>(
        &mut self,
        pl: &Planned<T>,
        entry: Entry,
        input: &[Complex<T>],
        out_init: &[Complex<T>],
        scratch_init: &[Complex<T>],
        guard: Option<Align>,
        extra: Value,
        observe: impl FnOnce(&CallResult<T>) -> Vec<Value>,
    ) -> CallResult<T> {
        let cid = self.call_begin(pl.iid, entry, input, out_init.len(), scratch_init.len(), extra);
        if self.chunk_events {
            verif_hooks::start_recording(true);
        }
        let r = run_call(&*pl.fft, entry, input, out_init, scratch_init, guard);
        if self.chunk_events {
            let evs = verif_hooks::take_events();
            self.emit_hook_events(evs);
        }
        let obs = observe(&r);
        let outh = hash2(&r.result);
        self.call_end(cid, &r.panic, obs, "none", "", outh);
        r
    }
}
