//! Guard-paged buffers: a slice placed flush against a PROT_NONE page, either at its end
//! (an over-read/over-write of even one element faults) or at its start (an under-read faults).
//! The payload pages can additionally be made read-only.
use std::marker::PhantomData;

const PAGE: usize = 4096;

#[derive(Clone, Copy, PartialEq, Debug)]
pub enum Align {
    End,
    Start,
}

pub struct GuardBuf<T: Copy> {
    base: *mut u8,
    total: usize,
    data: *mut T,
    len: usize,
    payload: *mut u8,
    payload_len: usize,
    _p: PhantomData<T>,
}
unsafe impl<T: Copy + Send> Send for GuardBuf<T> {}

impl<T: Copy> GuardBuf<T> {
    pub fn new(len: usize, align: Align, fill: T) -> Self {
        let bytes = len * std::mem::size_of::<T>();
        let payload_len = ((bytes + PAGE - 1) / PAGE).max(1) * PAGE;
        let total = payload_len + 2 * PAGE;
        unsafe {
            let base = libc::mmap(
                std::ptr::null_mut(),
                total,
                libc::PROT_NONE,
                libc::MAP_PRIVATE | libc::MAP_ANONYMOUS,
                -1,
                0,
            );
            assert!(base != libc::MAP_FAILED, "mmap failed");
            let base = base as *mut u8;
            let payload = base.add(PAGE);
            let rc = libc::mprotect(payload as *mut _, payload_len, libc::PROT_READ | libc::PROT_WRITE);
            assert_eq!(rc, 0);
            let data = match align {
                Align::End => payload.add(payload_len - bytes),
                Align::Start => payload,
            } as *mut T;
            assert_eq!(data as usize % std::mem::align_of::<T>(), 0);
            for i in 0..len {
                data.add(i).write(fill);
            }
            GuardBuf {
                base,
                total,
                data,
                len,
                payload,
                payload_len,
                _p: PhantomData,
            }
        }
    }
    pub fn from_slice(src: &[T], align: Align) -> Self {
        let mut b = if src.is_empty() {
            // no fill value available; create empty
            unsafe { Self::new_uninit(0, align) }
        } else {
            Self::new(src.len(), align, src[0])
        };
        b.as_mut_slice().copy_from_slice(src);
        b
    }
    unsafe fn new_uninit(len: usize, align: Align) -> Self {
        assert_eq!(len, 0);
        let payload_len = PAGE;
        let total = payload_len + 2 * PAGE;
        let base = libc::mmap(
            std::ptr::null_mut(),
            total,
            libc::PROT_NONE,
            libc::MAP_PRIVATE | libc::MAP_ANONYMOUS,
            -1,
            0,
        );
        assert!(base != libc::MAP_FAILED);
        let base = base as *mut u8;
        let payload = base.add(PAGE);
        libc::mprotect(payload as *mut _, payload_len, libc::PROT_READ | libc::PROT_WRITE);
        let data = match align {
            Align::End => payload.add(payload_len),
            Align::Start => payload,
        } as *mut T;
        GuardBuf {
            base,
            total,
            data,
            len: 0,
            payload,
            payload_len,
            _p: PhantomData,
        }
    }
    pub fn as_slice(&self) -> &[T] {
        unsafe { std::slice::from_raw_parts(self.data, self.len) }
    }
    pub fn as_mut_slice(&mut self) -> &mut [T] {
        unsafe { std::slice::from_raw_parts_mut(self.data, self.len) }
    }
    /// make the payload read-only (writes fault) or writable again
    pub fn set_readonly(&mut self, ro: bool) {
        unsafe {
            let prot = if ro {
                libc::PROT_READ
            } else {
                libc::PROT_READ | libc::PROT_WRITE
            };
            let rc = libc::mprotect(self.payload as *mut _, self.payload_len, prot);
            assert_eq!(rc, 0);
        }
    }
}
impl<T: Copy> Drop for GuardBuf<T> {
    fn drop(&mut self) {
        unsafe {
            libc::munmap(self.base as *mut _, self.total);
        }
    }
}
