//! Guard-paged buffers: a slice placed flush against a PROT_NONE page, either at its end
//! (an over-read/over-write of even one element faults) or at its start (an under-read faults).
//! The payload pages can additionally be made read-only.
//! Arenas are reused between calls (the slice is re-positioned against the guard page), so that the
//! cost per call is a copy, not an mmap.

const PAGE: usize = 4096;

#[derive(Clone, Copy, PartialEq, Debug)]
pub enum Align {
    End,
    Start,
}

pub struct Arena {
    base: *mut u8,
    total: usize,
    payload: *mut u8,
    payload_len: usize,
}

impl Arena {
    pub const fn empty() -> Arena {
        Arena { base: std::ptr::null_mut(), total: 0, payload: std::ptr::null_mut(), payload_len: 0 }
    }
    fn release(&mut self) {
        if !self.base.is_null() {
            unsafe {
                libc::munmap(self.base as *mut _, self.total);
            }
            self.base = std::ptr::null_mut();
            self.payload_len = 0;
        }
    }
    fn ensure(&mut self, bytes: usize) {
        // keep the arena unless it is too small - or far too large: after one very long transform every later small call would
        // pay for mprotect / page-table work over megabytes
        let oversized = self.payload_len > (1 << 20) && self.payload_len > 32 * bytes.max(PAGE);
        if !self.base.is_null() && self.payload_len >= bytes.max(1) && !oversized {
            return;
        }
        self.release();
        let want = bytes.max(PAGE) * 2; // grow geometrically
        let payload_len = ((want + PAGE - 1) / PAGE) * PAGE;
        let total = payload_len + 2 * PAGE;
        unsafe {
            let base = libc::mmap(std::ptr::null_mut(), total, libc::PROT_NONE, libc::MAP_PRIVATE | libc::MAP_ANONYMOUS, -1, 0);
            assert!(base != libc::MAP_FAILED, "mmap failed");
            let base = base as *mut u8;
            let payload = base.add(PAGE);
            let rc = libc::mprotect(payload as *mut _, payload_len, libc::PROT_READ | libc::PROT_WRITE);
            assert_eq!(rc, 0);
            self.base = base;
            self.total = total;
            self.payload = payload;
            self.payload_len = payload_len;
        }
    }
    /// a slice of `src.len()` elements flush against the guard page, initialised from `src`
    pub fn place<T: Copy>(&mut self, src: &[T], align: Align) -> *mut T {
        let bytes = std::mem::size_of_val(src);
        self.ensure(bytes);
        unsafe {
            let p = match align {
                Align::End => self.payload.add(self.payload_len - bytes),
                Align::Start => self.payload,
            } as *mut T;
            assert_eq!(p as usize % std::mem::align_of::<T>(), 0);
            std::ptr::copy_nonoverlapping(src.as_ptr(), p, src.len());
            p
        }
    }
    pub fn set_readonly(&mut self, ro: bool) {
        if self.base.is_null() {
            return;
        }
        unsafe {
            let prot = if ro { libc::PROT_READ } else { libc::PROT_READ | libc::PROT_WRITE };
            let rc = libc::mprotect(self.payload as *mut _, self.payload_len, prot);
            assert_eq!(rc, 0);
        }
    }
}
impl Drop for Arena {
    fn drop(&mut self) {
        self.release();
    }
}

thread_local! {
    pub static ARENAS: std::cell::RefCell<[Arena; 3]> = std::cell::RefCell::new([Arena::empty(), Arena::empty(), Arena::empty()]);
}
