//! C10: a planner's answers do not depend on what it planned before.
//! Request histories (from a TLC-generated scenario file, or enumerated/sampled here over pools of related
//! lengths) are replayed on two planner objects of each kind; every returned transform is checked against
//! the reference DFT, round-tripped when both directions exist, used again after the planners are dropped,
//! and the twin's outputs must be bit-identical.
use crate::calls::{run_call, Entry, ALL_ENTRIES};
use crate::ctx::{hash2, Ctx, Elem, Planned};
use crate::planners::{dir_name, AnyPlanner, Kind, ALL_KINDS};
use crate::real::{all_finite, err_q, gen_input, phase_digest, to_cdd, Real};
use crate::refdft::{self, CDD};
use crate::types::DD;
use crate::util::Rng;
use rustfft::num_complex::Complex;
use rustfft::num_traits::Zero;
use rustfft::FftDirection;
use serde_json::json;
use std::collections::HashMap;

pub const POOLS: [&[usize]; 9] = [
    // 2^a 3^b chain of 3456 with Rader primes whose inner lengths lie on it
    &[12, 36, 72, 144, 288, 576, 1152, 3456, 37, 73, 577, 1153],
    // powers of two, Fermat primes (Rader over 2^k), a Bluestein prime
    &[8, 16, 64, 128, 256, 512, 1024, 4096, 17, 257, 47, 94],
    // 5*7*11*64 and its chain, Rader prime 71 (70 = 2*5*7), 211 (210 = 2*3*5*7)
    &[5, 35, 385, 320, 448, 704, 2240, 24640, 71, 211, 77, 154],
    // Bluestein primes and their inner lengths
    &[47, 59, 118, 282, 96, 128, 144, 192, 256, 288, 83, 166],
    // small lengths and 3^k
    &[0, 1, 2, 3, 9, 27, 81, 243, 729, 6, 18, 54],
    // a Bluestein prime and EVERY admissible length of its inner transform (2p-1 .. next power of two): whatever of these is
    // cached, the transform returned for p (and for 2p) must not depend on it
    &[59, 118, 117, 119, 120, 121, 122, 124, 125, 126, 127, 128],
    // the same for 83 (165..256 sampled: smooth, prime and power-of-two candidates), plus large powers of two
    &[83, 166, 165, 168, 176, 180, 192, 200, 216, 243, 256, 4096],
    // divisor lattices of numbers whose prime factors are all >= 11 (the planners' generic mixed-radix path): a length is
    // requested after some of its own factors / co-factors were planned, and the other way round
    &[11, 13, 37, 121, 143, 407, 481, 1331, 1573, 4477, 5291, 58201],
    &[41, 43, 47, 53, 1681, 1763, 1927, 2021, 2173, 2279, 2491, 75809],
];

type Req = (usize, FftDirection);

struct RefCache<T: Real> {
    m: HashMap<(usize, bool), (Vec<Complex<T>>, Vec<CDD>)>,
}
impl<T: Real> RefCache<T> {
    fn get(&mut self, n: usize, d: FftDirection) -> &(Vec<Complex<T>>, Vec<CDD>) {
        let inv = d == FftDirection::Inverse;
        self.m.entry((n, inv)).or_insert_with(|| {
            let mut rng = Rng::new(0xC10 + n as u64);
            let x: Vec<Complex<T>> = gen_input("uniform", n, 0, &mut rng);
            let r = refdft::fft(&to_cdd(&x), inv);
            (x, r)
        })
    }
}

fn check_transform<T: Real + Elem>(
    ctx: &mut Ctx,
    refs: &mut RefCache<T>,
    pl: &Planned<T>,
    step: usize,
    role: &str,
    outputs: &mut Vec<(Entry, Vec<Complex<T>>)>,
) {
    let n = pl.n;
    if n == 0 {
        return;
    }
    let e = ALL_ENTRIES[(n + step) % 4];
    let (x, reference) = refs.get(n, pl.dir).clone();
    let scratch = vec![Complex::<T>::zero(); pl.adv[e.scratch_index()]];
    let out = vec![Complex::<T>::zero(); if e.two_buffers() { n } else { 0 }];
    let key = format!("step{}:{}:{}", step, n, dir_name(pl.dir));
    let cid = ctx.call_begin(pl.iid, e, &x, out.len(), scratch.len(), json!({"family": "uniform", "step": step}));
    let r = run_call(&*pl.fft, e, &x, &out, &scratch, None);
    let mut obs = vec![];
    if r.panic.is_none() {
        obs.push(json!({"kind": "err", "ref": "dft", "err_q": err_q(&r.result, &reference)}));
        obs.push(json!({"kind": "hash"}));
    }
    ctx.call_end(cid, &r.panic, obs, role, &key, hash2(&r.result));
    if role == "ref" {
        outputs.push((e, r.result.clone()));
    }
    // impulses for small n (ascending-frequency order and sign convention decided by TLC)
    if role == "ref" && n <= 64 {
        for j in [1 % n, n - 1] {
            let xi: Vec<Complex<T>> = gen_input("impulse", n, j, &mut ctx.rng);
            ctx.call(pl, e, &xi, &out, &scratch, None, json!({"family": "impulse", "j": j}), |r| {
                if r.panic.is_some() {
                    return vec![];
                }
                let (ph, ok) = phase_digest(&r.result);
                vec![json!({"kind": "phase", "j": j, "phase": ph, "mag_ok": ok})]
            });
        }
    }
}

fn replay_history<T: Real + Elem>(ctx: &mut Ctx, refs: &mut RefCache<T>, kind: Kind, seq: &[Req], hooks: bool) {
    let (pa, mut a) = match ctx.new_planner::<T>(kind) {
        Some(x) => x,
        None => return,
    };
    let (pb, mut b) = match ctx.new_planner::<T>(kind) {
        Some(x) => x,
        None => return,
    };
    let mut held: Vec<(usize, Planned<T>)> = Vec::new();
    let mut outputs: Vec<(Entry, Vec<Complex<T>>)> = Vec::new();
    for (step, &(n, d)) in seq.iter().enumerate() {
        ctx.case(format!("{} {} {:?}", kind.name(), T::ELEM, &seq[..=step]), step >= 1);
        let ta = ctx.plan(pa, &mut a, n, d, hooks);
        let tb = ctx.plan(pb, &mut b, n, d, false);
        if let Some(ta) = ta {
            check_transform(ctx, refs, &ta, step, "ref", &mut outputs);
            // round trip with any earlier transform of the same length and opposite direction (C06)
            if let Some((_, other)) = held.iter().find(|(_, o)| o.n == n && o.dir != d) {
                if n > 0 {
                    let (x, _) = refs.get(n, d).clone();
                    let nx: Vec<CDD> = x
                        .iter()
                        .map(|c| CDD::new(DD::from(c.re.to_f64()).mul_f64(n as f64), DD::from(c.im.to_f64()).mul_f64(n as f64)))
                        .collect();
                    let z = Complex::<T>::zero();
                    let r1 = ctx.call(&ta, Entry::Inplace, &x, &[], &vec![z; ta.adv[0]], None, json!({"step": "rt1"}), |r| {
                        vec![json!({"kind": "err", "ref": "self", "err_q": if r.panic.is_none() && all_finite(&r.result) { 0 } else { 1 << 30 }})]
                    });
                    if r1.panic.is_none() {
                        ctx.call(other, Entry::Inplace, &r1.result, &[], &vec![z; other.adv[0]], None, json!({"step": "rt2"}), |r| {
                            if r.panic.is_some() {
                                return vec![];
                            }
                            vec![json!({"kind": "err", "ref": "nx", "err_q": err_q(&r.result, &nx)})]
                        });
                    }
                }
            }
            held.push((step, ta));
        }
        if let Some(tb) = tb {
            // twin: bit-identical outputs
            check_transform(ctx, refs, &tb, step, "check", &mut outputs);
        }
    }
    // transforms stay valid after the planners are dropped
    ctx.drop_planner(pa, a);
    ctx.drop_planner(pb, b);
    for (step, pl) in held.iter() {
        check_transform(ctx, refs, pl, *step, "check", &mut outputs);
    }
}

fn all_requests(pool: &[usize]) -> Vec<Req> {
    let mut v = Vec::new();
    for &n in pool {
        v.push((n, FftDirection::Forward));
        v.push((n, FftDirection::Inverse));
    }
    v
}

fn histories_for<T: Real + Elem>(ctx: &mut Ctx, item: &mut usize, sample_den: u64, random_count: usize, sat_count: usize) {
    let mut refs = RefCache::<T> { m: HashMap::new() };
    for kind in ALL_KINDS {
        for (pi, pool) in POOLS.iter().enumerate() {
            let reqs = all_requests(pool);
            let m = reqs.len();
            // all sequences of length 1..3 over the pool; length-3 sequences sampled by a seeded hash
            let mut seqs: Vec<Vec<Req>> = Vec::new();
            for a in 0..m {
                seqs.push(vec![reqs[a]]);
                for b in 0..m {
                    seqs.push(vec![reqs[a], reqs[b]]);
                    for c in 0..m {
                        let h = Rng::new(ctx.seed ^ ((pi * 1_000_003 + a * 10007 + b * 101 + c) as u64)).next();
                        if h % sample_den == 0 {
                            seqs.push(vec![reqs[a], reqs[b], reqs[c]]);
                        }
                    }
                }
            }
            for (si, group) in seqs.chunks(24).enumerate() {
                let idx = *item;
                *item += 1;
                let label = format!("hist {} {} pool{} group{}", kind.name(), T::ELEM, pi, si);
                if !ctx.scenario(idx, &label) {
                    continue;
                }
                for (qi, seq) in group.iter().enumerate() {
                    if qi > 0 {
                        ctx.reset(&label);
                    }
                    replay_history(ctx, &mut refs, kind, seq, (si + qi) % 4 == 0);
                }
            }
            // saturation histories: every request of the pool, in a seeded random order, on one planner (and its twin): the
            // later requests are answered with 10..20 other transforms in the caches
            for ri in 0..sat_count {
                let idx = *item;
                *item += 1;
                let label = format!("hist-saturate {} {} pool{} #{}", kind.name(), T::ELEM, pi, ri);
                if !ctx.scenario(idx, &label) {
                    continue;
                }
                let mut rng = Rng::new(ctx.seed.wrapping_mul(131) + (pi * 7919 + ri) as u64);
                let mut seq: Vec<Req> = reqs.clone();
                for i in (1..seq.len()).rev() {
                    let j = rng.below(i as u64 + 1) as usize;
                    seq.swap(i, j);
                }
                replay_history(ctx, &mut refs, kind, &seq, ri % 2 == 1);
            }
            // random longer histories over the pool (length <= 12, repeats allowed)
            for ri in 0..random_count {
                let idx = *item;
                *item += 1;
                let label = format!("hist-random {} {} pool{} #{}", kind.name(), T::ELEM, pi, ri);
                if !ctx.scenario(idx, &label) {
                    continue;
                }
                let mut rng = Rng::new(ctx.seed.wrapping_mul(31) + (pi * 1000 + ri) as u64);
                let len = 4 + rng.below(9) as usize;
                let seq: Vec<Req> = (0..len).map(|_| reqs[rng.below(m as u64) as usize]).collect();
                replay_history(ctx, &mut refs, kind, &seq, ri % 2 == 0);
            }
        }
    }
}

/// histories enumerated by TLC from the faithful AVX planner model (spec/MC_Histories.tla): replayed on the AVX and the
/// automatic planner with the build hooks on, so that the predicted radix chains are compared step by step
fn tlc_histories<T: Real + Elem>(ctx: &mut Ctx, item: &mut usize, lines: &[(String, Vec<usize>)], keep_den: u64) {
    let mut refs = RefCache::<T> { m: HashMap::new() };
    let mine: Vec<&Vec<usize>> = lines.iter().filter(|(e, _)| e == T::ELEM).map(|(_, s)| s).collect();
    for (gi, group) in mine.chunks(16).enumerate() {
        for kind in [Kind::Avx, Kind::Auto] {
            let idx = *item;
            *item += 1;
            let label = format!("hist-tlc {} {} group{}", kind.name(), T::ELEM, gi);
            if !ctx.scenario(idx, &label) {
                continue;
            }
            let mut first = true;
            for (qi, seq) in group.iter().enumerate() {
                let h = Rng::new(ctx.seed ^ ((gi * 131 + qi) as u64) ^ 0x7157).next();
                if h % keep_den != 0 {
                    continue;
                }
                if !first {
                    ctx.reset(&label);
                }
                first = false;
                // same direction throughout (the cache is per direction), alternating by history
                let d = if (gi + qi) % 2 == 0 { FftDirection::Forward } else { FftDirection::Inverse };
                let reqs: Vec<Req> = seq.iter().map(|&n| (n, d)).collect();
                replay_history(ctx, &mut refs, kind, &reqs, true);
            }
        }
    }
}

pub fn run_c10(ctx: &mut Ctx, scenarios: &str) {
    let (sample_den, random_count, sat_count) = if ctx.quick() { (97, 6, 3) } else { (5, 60, 24) };
    let mut item = 0usize;
    if !scenarios.is_empty() {
        let mut lines: Vec<(String, Vec<usize>)> = Vec::new();
        if let Ok(txt) = std::fs::read_to_string(scenarios) {
            for line in txt.lines() {
                if let Ok(v) = serde_json::from_str::<serde_json::Value>(line) {
                    if let (Some(e), Some(sq)) = (v["elem"].as_str(), v["seq"].as_array()) {
                        lines.push((e.to_string(), sq.iter().filter_map(|x| x.as_u64().map(|y| y as usize)).collect()));
                    }
                }
            }
        }
        let keep = if ctx.quick() { 4 } else { 1 };
        tlc_histories::<f32>(ctx, &mut item, &lines, keep);
        tlc_histories::<f64>(ctx, &mut item, &lines, keep);
    }
    histories_for::<f32>(ctx, &mut item, sample_den, random_count, sat_count);
    histories_for::<f64>(ctx, &mut item, sample_den, random_count, sat_count);
}

#[allow(dead_code)]
fn _unused<T: Elem>(_p: AnyPlanner<T>) {}
