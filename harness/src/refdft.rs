//! Independent reference DFT in double-double arithmetic.
//!  - `twiddle(k, n)`  = exp(-2 pi i k / n) to ~1e-31, by exact octant reduction of k/n and Taylor series
//!  - `naive_dft`      = O(n^2) definition
//!  - `fft`            = radix-2 for powers of two, Bluestein (over radix-2) for everything else
use crate::types::DD;

#[derive(Clone, Copy, Debug, Default, PartialEq)]
pub struct CDD {
    pub re: DD,
    pub im: DD,
}
impl CDD {
    pub const ZERO: CDD = CDD {
        re: DD::ZERO,
        im: DD::ZERO,
    };
    pub fn new(re: DD, im: DD) -> CDD {
        CDD { re, im }
    }
    pub fn from_f64(re: f64, im: f64) -> CDD {
        CDD {
            re: DD::from(re),
            im: DD::from(im),
        }
    }
    #[inline]
    pub fn add(self, o: CDD) -> CDD {
        CDD::new(self.re + o.re, self.im + o.im)
    }
    #[inline]
    pub fn sub(self, o: CDD) -> CDD {
        CDD::new(self.re - o.re, self.im - o.im)
    }
    #[inline]
    pub fn mul(self, o: CDD) -> CDD {
        CDD::new(self.re * o.re - self.im * o.im, self.re * o.im + self.im * o.re)
    }
    #[inline]
    pub fn conj(self) -> CDD {
        CDD::new(self.re, -self.im)
    }
    pub fn scale(self, s: f64) -> CDD {
        CDD::new(self.re.mul_f64(s), self.im.mul_f64(s))
    }
    pub fn norm_sqr_f64(self) -> f64 {
        let a = self.re.to_f64();
        let b = self.im.to_f64();
        a * a + b * b
    }
}

// pi/4 as a double-double
const PI_4: DD = DD {
    hi: 0.7853981633974483,
    lo: 3.061616997868383e-17,
};

thread_local! {
    /// 1/k! in double-double, k = 0..33
    static INV_FACT: Vec<DD> = {
        let mut v = vec![DD::from(1.0)];
        let mut f = DD::from(1.0);
        for k in 1..34 {
            f = f * DD::from(k as f64);
            v.push(DD::from(1.0) / f);
        }
        v
    };
    /// twiddle tables of the power-of-two FFT, keyed by length: exp(-2 pi i k/n), k < n/2
    static POW2_TW: std::cell::RefCell<std::collections::HashMap<usize, std::rc::Rc<Vec<CDD>>>> = Default::default();
}

/// sin and cos of (pi/4) * (num/den) with 0 <= num <= den, in double-double
fn sincos_octant(num: u64, den: u64) -> (DD, DD) {
    // x = pi/4 * num/den  in [0, pi/4]
    let frac = DD::from(num as f64) / DD::from(den as f64);
    let x = PI_4 * frac;
    let x2 = x * x;
    // Taylor series by Horner; |x| <= 0.786, terms up to x^33/33! < 1e-40
    INV_FACT.with(|inv| {
        let mut c = inv[32];
        let mut s = inv[33];
        let mut k = 30i32;
        while k >= 0 {
            c = inv[k as usize] - x2 * c;
            s = inv[k as usize + 1] - x2 * s;
            k -= 2;
        }
        (s * x, c)
    })
}

/// exp(-2 pi i k / n)
pub fn twiddle(k: u64, n: u64) -> CDD {
    let k = k % n;
    // angle = 2 pi k/n = (pi/4) * (8k/n); octant o = floor(8k/n), remainder r = 8k - o*n in [0,n)
    let e = 8u128 * k as u128;
    let o = (e / n as u128) as u64;
    let r = (e % n as u128) as u64;
    // within octant: t = (pi/4) * r/n
    let (s, c) = if o % 2 == 0 {
        sincos_octant(r, n)
    } else {
        // odd octant: use complementary angle pi/4 - t, i.e. (n - r)/n
        let (s2, c2) = sincos_octant(n - r, n);
        // sin(pi/4*o + t) with o odd: handled below through base angle (o+1)*pi/4 - t'
        (s2, c2)
    };
    // cos/sin of theta = o*pi/4 + t   (o even)   or (o+1)*pi/4 - t'  (o odd)
    let (q, sgn_t) = if o % 2 == 0 { (o / 2, 1) } else { ((o + 1) / 2, -1) };
    // theta = q*pi/2 + sgn_t * t  ; cos(t)=c, sin(t)=s
    let (ct, st) = (c, if sgn_t == 1 { s } else { -s });
    let (cos_th, sin_th) = match q % 4 {
        0 => (ct, st),
        1 => (-st, ct),
        2 => (-ct, -st),
        _ => (st, -ct),
    };
    // exp(-i theta)
    CDD::new(cos_th, -sin_th)
}

pub fn naive_dft(x: &[CDD], inverse: bool) -> Vec<CDD> {
    let n = x.len();
    if n == 0 {
        return vec![];
    }
    let tw: Vec<CDD> = (0..n as u64)
        .map(|k| {
            let t = twiddle(k, n as u64);
            if inverse {
                t.conj()
            } else {
                t
            }
        })
        .collect();
    (0..n)
        .map(|k| {
            let mut acc = CDD::ZERO;
            let mut idx = 0usize;
            for j in 0..n {
                acc = acc.add(x[j].mul(tw[idx]));
                idx += k;
                if idx >= n {
                    idx -= n;
                }
            }
            acc
        })
        .collect()
}

fn fft_pow2(buf: &mut [CDD], inverse: bool) {
    let n = buf.len();
    if n <= 1 {
        return;
    }
    debug_assert!(n.is_power_of_two());
    let bits = n.trailing_zeros();
    for i in 0..n {
        let j = (i as u64).reverse_bits() >> (64 - bits);
        let j = j as usize;
        if i < j {
            buf.swap(i, j);
        }
    }
    let fwd_tw = POW2_TW.with(|m| {
        m.borrow_mut()
            .entry(n)
            .or_insert_with(|| std::rc::Rc::new((0..n / 2).map(|k| twiddle(k as u64, n as u64)).collect()))
            .clone()
    });
    let tw: Vec<CDD> = if inverse { fwd_tw.iter().map(|t| t.conj()).collect() } else { fwd_tw.to_vec() };
    let mut len = 2;
    while len <= n {
        let step = n / len;
        for start in (0..n).step_by(len) {
            for k in 0..len / 2 {
                let w = tw[k * step];
                let a = buf[start + k];
                let b = buf[start + k + len / 2].mul(w);
                buf[start + k] = a.add(b);
                buf[start + k + len / 2] = a.sub(b);
            }
        }
        len *= 2;
    }
}

/// Reference DFT of any length (unnormalised; forward = exp(-...), inverse = exp(+...)).
pub fn fft(x: &[CDD], inverse: bool) -> Vec<CDD> {
    let n = x.len();
    if n <= 1 {
        return x.to_vec();
    }
    if n.is_power_of_two() {
        let mut b = x.to_vec();
        fft_pow2(&mut b, inverse);
        return b;
    }
    if n <= 64 {
        return naive_dft(x, inverse);
    }
    // Bluestein: X[k] = conj(w[k]) * sum_j (x[j] conj(w[j])) w[k-j],  w[j] = exp(+i pi j^2/n) (forward)
    let m = (2 * n - 1).next_power_of_two();
    // chirp c[j] = exp(-i pi j^2 / n) = twiddle(j^2 mod 2n, 2n)
    let chirp: Vec<CDD> = (0..n as u128)
        .map(|j| {
            let t = twiddle(((j * j) % (2 * n as u128)) as u64, 2 * n as u64);
            if inverse {
                t.conj()
            } else {
                t
            }
        })
        .collect();
    let mut a = vec![CDD::ZERO; m];
    for j in 0..n {
        a[j] = x[j].mul(chirp[j]);
    }
    let mut b = vec![CDD::ZERO; m];
    b[0] = chirp[0].conj();
    for j in 1..n {
        b[j] = chirp[j].conj();
        b[m - j] = chirp[j].conj();
    }
    fft_pow2(&mut a, false);
    fft_pow2(&mut b, false);
    for i in 0..m {
        a[i] = a[i].mul(b[i]);
    }
    fft_pow2(&mut a, true);
    let inv_m = 1.0 / m as f64; // m is a power of two: exact
    (0..n).map(|k| a[k].scale(inv_m).mul(chirp[k])).collect()
}

/// Self-test of the reference: closed forms and naive-vs-fast agreement. Returns worst relative error.
pub fn selftest() -> f64 {
    let mut worst: f64 = 0.0;
    // twiddle identities: w^n = 1, |w| = 1
    for &n in &[3u64, 7, 8, 12, 97, 1000, 4099] {
        for k in [0, 1, n / 3, n / 2, n - 1] {
            let t = twiddle(k, n);
            let nrm = (t.re * t.re + t.im * t.im) - DD::from(1.0);
            worst = worst.max(nrm.to_f64().abs());
            // compare against f64 libm
            let ang = -2.0 * std::f64::consts::PI * (k as f64) / (n as f64);
            worst = worst.max(((t.re.to_f64() - ang.cos()).abs() - 1e-15).max(0.0));
            worst = worst.max(((t.im.to_f64() - ang.sin()).abs() - 1e-15).max(0.0));
        }
    }
    let mut rng = crate::util::Rng::new(12345);
    for &n in &[5usize, 17, 65, 100, 127, 130, 257, 384, 511] {
        let x: Vec<CDD> = (0..n)
            .map(|_| CDD::from_f64(rng.unit() - 0.5, rng.unit() - 0.5))
            .collect();
        for inv in [false, true] {
            let a = naive_dft(&x, inv);
            let b = fft(&x, inv);
            let mut num = 0.0;
            let mut den = 0.0;
            for i in 0..n {
                let d = a[i].sub(b[i]);
                num += d.norm_sqr_f64();
                den += a[i].norm_sqr_f64();
            }
            worst = worst.max((num / den).sqrt());
        }
    }
    // impulse -> pure tone
    let n = 96;
    let mut x = vec![CDD::ZERO; n];
    x[5] = CDD::from_f64(1.0, 0.0);
    let y = fft(&x, false);
    for k in 0..n {
        let t = twiddle((5 * k) as u64, n as u64);
        let d = y[k].sub(t);
        worst = worst.max(d.norm_sqr_f64().sqrt());
    }
    worst
}
