//! Exact checks of the portable generic code over GF(p) (C01 exact half, C06 exact, C14) and the
//! other custom element types of C14 (double-double, counting, 24-byte wide).
use crate::calls::{run_call, Entry, ALL_ENTRIES, SCRATCH_ENTRIES};
use crate::ctx::{hash2, Ctx, Elem, Planned};
use crate::fpfield::{record, with_exact, Field};
use crate::planners::{dir_name, AnyPlanner, Kind, NewResult, DIRS};
use crate::real::{bits_equal, err_q, gen_input, to_cdd};
use crate::refdft::{self, CDD};
use crate::types::{Fp, Wide, DD, NON_RING_OP};
use crate::util::{big_lengths, structured_lengths};
use rustfft::num_complex::Complex;
use rustfft::FftDirection;
use serde_json::{json, Value};

fn fz() -> Complex<Fp> {
    Complex { re: Fp(0), im: Fp(0) }
}
fn garbage(len: usize, ctx: &mut Ctx, p: u64) -> Vec<Complex<Fp>> {
    (0..len).map(|_| Complex { re: Fp(ctx.rng.below(p)), im: Fp(ctx.rng.below(p)) }).collect()
}
fn pairs(v: &[Complex<Fp>]) -> Vec<[u64; 2]> {
    v.iter().map(|c| [c.re.0, c.im.0]).collect()
}

pub struct ExactStats {
    pub done: u64,
    pub skipped: u64,
}

/// One exact case: planner `kind` (auto or scalar), length n, both directions on one planner.
pub fn exact_case(ctx: &mut Ctx, kind: Kind, n: usize, small: bool, stats: &mut ExactStats) {
    // pass 1: which constants does the library convert?
    let (ok1, recorded) = record(|| match AnyPlanner::<Fp>::new(kind) {
        NewResult::Ok(mut p) => {
            let a = p.plan(n, FftDirection::Forward).is_ok();
            let b = p.plan(n, FftDirection::Inverse).is_ok();
            a && b
        }
        _ => false,
    });
    let bmax = 32 * n as u64 + 64;
    let field = if ok1 { Field::build(&recorded, bmax, &[n as u64], small).ok() } else { None };
    let field = match field {
        Some(f) => f,
        None if ok1 => {
            // constants not identifiable within the bounds (or no small prime): skipped and counted, never guessed
            stats.skipped += 1;
            ctx.tr.emit("Note", json!({"what": "exact-skip", "n": n, "kind": kind.name(), "small": small}));
            return;
        }
        None => {
            // planning itself failed: let the real events show it
            crate::types::fp_set_modulus(2305843009213693951);
            if let Some((pid, mut p)) = ctx.new_planner::<Fp>(kind) {
                ctx.plan(pid, &mut p, n, FftDirection::Forward, false);
                ctx.plan(pid, &mut p, n, FftDirection::Inverse, false);
            }
            return;
        }
    };
    // pass 2: the same planner calls with exact constants
    NON_RING_OP.with(|c| c.set(0));
    let p = field.p;
    let ((), misses) = with_exact(&field, || {
        let (pid, mut planner) = match ctx.new_planner::<Fp>(kind) {
            Some(x) => x,
            None => return,
        };
        let first = DIRS[n % 2];
        let t1 = ctx.plan(pid, &mut planner, n, first, false);
        let t2 = ctx.plan(pid, &mut planner, n, first.opposite_direction(), false);
        let (t1, t2) = match (t1, t2) {
            (Some(a), Some(b)) => (a, b),
            _ => return,
        };
        ctx.case(format!("{} fp {}", kind.name(), n), n >= 2);
        stats.done += 1;
        for pl in [&t1, &t2] {
            exact_calls(ctx, pl, &field, small);
        }
        // exact round trip: second(first(x)) = n x
        if n > 0 {
            let x = garbage(n, ctx, p);
            let e1 = ALL_ENTRIES[n % 4];
            let e2 = ALL_ENTRIES[(n + 2) % 4];
            let s1 = garbage(t1.adv[e1.scratch_index()], ctx, p);
            let o1 = garbage(if e1.two_buffers() { n } else { 0 }, ctx, p);
            let r1 = ctx.call(&t1, e1, &x, &o1, &s1, None, json!({"step": 1}), |_r| vec![json!({"kind": "exact", "match": true, "what": "intermediate"})]);
            if r1.panic.is_none() {
                let s2 = garbage(t2.adv[e2.scratch_index()], ctx, p);
                let o2 = garbage(if e2.two_buffers() { n } else { 0 }, ctx, p);
                let nn = Fp(n as u64 % p);
                let expect: Vec<Complex<Fp>> = x.iter().map(|c| Complex { re: c.re * nn, im: c.im * nn }).collect();
                ctx.call(&t2, e2, &r1.result, &o2, &s2, None, json!({"step": 2}), |r| {
                    vec![json!({"kind": "exact", "match": r.result == expect, "what": "roundtrip n*x"})]
                });
            }
        }
    });
    let non_ring = NON_RING_OP.with(|c| c.get());
    ring_note(ctx, "fp", non_ring, true);
    if misses > 0 {
        ctx.tr.emit("Note", json!({"what": "exact-misses", "n": n, "misses": misses}));
    }
}

fn exact_calls(ctx: &mut Ctx, pl: &Planned<Fp>, field: &Field, small: bool) {
    let n = pl.n;
    if n == 0 {
        return;
    }
    let p = field.p;
    let inv = pl.dir == FftDirection::Inverse;
    let roots = field.roots(n as u64, inv);
    let w = roots[1 % n];
    let full_oracle = n <= 1024;
    // inputs: the impulse basis for small n, random vectors otherwise
    let mut inputs: Vec<(Vec<Complex<Fp>>, usize, String)> = Vec::new();
    if n <= 32 && !small {
        for j in 0..n {
            let mut x = vec![fz(); n];
            x[j] = Complex { re: Fp(1), im: Fp(0) };
            inputs.push((x, 1, format!("impulse{}", j)));
        }
    }
    let ks = if small { vec![1usize] } else { vec![1usize, 3] };
    for k in ks {
        inputs.push((garbage(n * k, ctx, p), k, format!("random k{}", k)));
    }
    for (ii, (x, k, fam)) in inputs.into_iter().enumerate() {
        let e = ALL_ENTRIES[(ii + n) % 4];
        let scratch = garbage(pl.adv[e.scratch_index()], ctx, p);
        let out = garbage(if e.two_buffers() { n * k } else { 0 }, ctx, p);
        let xin = x.clone();
        let rts = &roots;
        let picks: Vec<usize> = (0..64).map(|_| ctx.rng.below(n as u64) as usize).collect();
        ctx.call(pl, e, &x, &out, &scratch, None, json!({"family": fam, "k": k, "p": p.to_string()}), move |r| {
            if r.panic.is_some() {
                return vec![];
            }
            let mut ok = r.result.len() == xin.len();
            if ok {
                for (cin, cout) in xin.chunks(n).zip(r.result.chunks(n)) {
                    if full_oracle {
                        for kk in 0..n {
                            if field.dft_at(cin, kk, rts) != cout[kk] {
                                ok = false;
                                break;
                            }
                        }
                    } else {
                        for &kk in &picks {
                            if field.dft_at(cin, kk, rts) != cout[kk] {
                                ok = false;
                                break;
                            }
                        }
                    }
                }
            }
            let mut obs = vec![json!({"kind": "exact", "match": ok, "oracle": if full_oracle {"all k"} else {"64 random k"}})];
            if small && k == 1 {
                // let TLC recompute the DFT itself
                obs.push(json!({"kind": "exact_small", "p": p, "n": n, "w": [w.re.0, w.im.0], "x": pairs(&xin), "y": pairs(&r.result)}));
            }
            obs
        });
    }
}

pub fn run_exact(ctx: &mut Ctx, prop_c14: bool) {
    let (n_max, s_max, small_max) = if ctx.quick() { (384, 1 << 13, 40) } else { (2048, 1 << 16, 48) };
    let mut stats = ExactStats { done: 0, skipped: 0 };
    let mut lens: Vec<usize> = (0..=n_max).collect();
    lens.extend(structured_lengths((4 * n_max).min(s_max) as u64).into_iter().map(|x| x as usize).filter(|&x| x > n_max));
    lens.extend(big_lengths((4 * n_max) as u64, s_max as u64).into_iter().map(|x| x as usize));
    let mut item = 0usize;
    for chunk in lens.chunks(4) {
        for kind in [Kind::Auto, Kind::Scalar] {
            let idx = item;
            item += 1;
            let label = format!("exact {} n={}..{}", kind.name(), chunk[0], chunk[chunk.len() - 1]);
            if !ctx.scenario(idx, &label) {
                continue;
            }
            if prop_c14 {
                ctx.mixed_type_constructors();
            }
            for &n in chunk {
                exact_case(ctx, kind, n, false, &mut stats);
                if n >= 1 && n <= small_max && kind == Kind::Auto {
                    exact_case(ctx, kind, n, true, &mut stats);
                }
            }
        }
    }
    if prop_c14 {
        other_types(ctx, &mut item);
    }
    ctx.tr.emit("Note", json!({"what": "exact-summary", "done": stats.done, "skipped": stats.skipped}));
}

// ------------------------------------------------------------------------------------------------
// C14: the other element types
// ------------------------------------------------------------------------------------------------
fn simd_must_decline<T: Elem>(ctx: &mut Ctx) {
    for k in [Kind::Avx, Kind::Sse] {
        let _ = ctx.new_planner::<T>(k);
    }
}

fn dd_block(ctx: &mut Ctx, lens: &[usize]) {
    simd_must_decline::<DD>(ctx);
    let (pid, mut planner) = match ctx.new_planner::<DD>(Kind::Auto) {
        Some(x) => x,
        None => return,
    };
    NON_RING_OP.with(|c| c.set(0));
    for &n in lens {
        for d in DIRS {
            ctx.case(format!("dd {} {}", n, dir_name(d)), n >= 2);
            let pl = match ctx.plan(pid, &mut planner, n, d, false) {
                Some(pl) => pl,
                None => continue,
            };
            if n == 0 {
                continue;
            }
            let xf: Vec<Complex<f64>> = gen_input("uniform", n, 0, &mut ctx.rng);
            let x: Vec<Complex<DD>> = xf.iter().map(|c| Complex { re: DD::from(c.re), im: DD::from(c.im) }).collect();
            let reference = refdft::fft(&to_cdd(&xf), d == FftDirection::Inverse);
            let e = ALL_ENTRIES[n % 4];
            let z = Complex { re: DD::ZERO, im: DD::ZERO };
            let scratch = vec![z; pl.adv[e.scratch_index()]];
            let out = vec![z; if e.two_buffers() { n } else { 0 }];
            ctx.call(&pl, e, &x, &out, &scratch, None, json!({"family": "uniform"}), |r| {
                if r.panic.is_some() {
                    return vec![];
                }
                // error of the double-double result, measured in units of the f64 epsilon
                let as64: Vec<Complex<f64>> = r.result.iter().map(|c| Complex { re: c.re.to_f64(), im: c.im.to_f64() }).collect();
                let _ = &as64;
                let mut num = 0.0f64;
                let mut den = 0.0f64;
                for (o, rf) in r.result.iter().zip(&reference) {
                    let dr = (o.re - rf.re).to_f64();
                    let di = (o.im - rf.im).to_f64();
                    num += dr * dr + di * di;
                    den += rf.norm_sqr_f64();
                }
                let rel = if den > 0.0 { (num / den).sqrt() } else { 0.0 };
                let q = (1024.0 * rel / 2.220446049250313e-16).ceil();
                let q = if q.is_finite() && q < (1u64 << 30) as f64 { q as i64 } else { 1 << 30 };
                vec![json!({"kind": "err", "ref": "dft", "err_q": q})]
            });
        }
    }
    let non_ring = NON_RING_OP.with(|c| c.get());
    ring_note(ctx, "dd", non_ring, true);
}

/// report the ring-operations-only clause for one element type
fn ring_note(ctx: &mut Ctx, elem: &str, non_ring: u32, tags_ok: bool) {
    ctx.tr.emit("ElemReport", json!({"elem": elem, "non_ring": non_ring, "tags_ok": tags_ok}));
}

fn wide_block(ctx: &mut Ctx, lens: &[usize]) {
    simd_must_decline::<Wide>(ctx);
    let (pid, mut planner) = match ctx.new_planner::<Wide>(Kind::Auto) {
        Some(x) => x,
        None => return,
    };
    let (spid, mut splanner) = match ctx.new_planner::<f64>(Kind::Scalar) {
        Some(x) => x,
        None => return,
    };
    NON_RING_OP.with(|c| c.set(0));
    let mut tags_ok = true;
    ctx.flush_calls = true;
    for &n in lens {
        for d in DIRS {
            ctx.case(format!("wide {} {}", n, dir_name(d)), n >= 2);
            let pl = match ctx.plan(pid, &mut planner, n, d, false) {
                Some(pl) => pl,
                None => continue,
            };
            let spl = match ctx.plan(spid, &mut splanner, n, d, false) {
                Some(pl) => pl,
                None => continue,
            };
            if n == 0 {
                continue;
            }
            let k = 1 + n % 3;
            let xf: Vec<Complex<f64>> = gen_input("uniform", n * k, 0, &mut ctx.rng);
            let x: Vec<Complex<Wide>> = xf.iter().map(|c| Complex { re: Wide::new(c.re), im: Wide::new(c.im) }).collect();
            let e = SCRATCH_ENTRIES[n % 3];
            // the same generic code in f64 through the scalar planner: same operation order => same bits
            let zs = Complex { re: 0.0f64, im: 0.0 };
            let rs = run_call(&*spl.fft, e, &xf, &vec![zs; if e.two_buffers() { n * k } else { 0 }], &vec![zs; spl.adv[e.scratch_index()]], None);
            let z = Complex { re: Wide::new(0.0), im: Wide::new(0.0) };
            let scratch = vec![z; pl.adv[e.scratch_index()]];
            let out = vec![z; if e.two_buffers() { n * k } else { 0 }];
            let al = if n % 2 == 0 { crate::mem::Align::End } else { crate::mem::Align::Start };
            let key = format!("wide:{}:{}:{}", n, dir_name(d), e.name());
            let cid = ctx.call_begin(pl.iid, e, &x, out.len(), scratch.len(), json!({"family": "uniform", "k": k}));
            let r = run_call(&*pl.fft, e, &x, &out, &scratch, Some(al));
            let as64: Vec<Complex<f64>> = r.result.iter().map(|c| Complex { re: c.re.v, im: c.im.v }).collect();
            tags_ok &= r.result.iter().all(|c| c.re.tag_ok() && c.im.tag_ok());
            // judged against the double-double reference like any f64 transform (a re-typed 24-byte element would give
            // garbage); bit-equality with the scalar f64 planner is recorded, not required
            let obs = if r.panic.is_none() {
                let reference = refdft::fft(&to_cdd(&xf[..n]), d == FftDirection::Inverse);
                let same_bits = rs.panic.is_none() && bits_equal(&as64, &rs.result);
                vec![json!({"kind": "err", "ref": "dft", "err_q": err_q(&as64[..n], &reference), "same_bits_as_scalar_f64": same_bits})]
            } else {
                vec![]
            };
            ctx.call_end(cid, &r.panic, obs, "none", &key, hash2(&as64));
        }
    }
    let non_ring = NON_RING_OP.with(|c| c.get());
    ring_note(ctx, "wide", non_ring, tags_ok);
}

fn other_types(ctx: &mut Ctx, item: &mut usize) {
    let (n_max, s_max) = if ctx.quick() { (256, 1 << 12) } else { (2048, 1 << 15) };
    let mut lens: Vec<usize> = (0..=n_max).collect();
    lens.extend(structured_lengths(s_max as u64).into_iter().map(|x| x as usize).filter(|&x| x > n_max));
    for chunk in lens.chunks(16) {
        for ty in ["dd", "wide", "cnt"] {
            let idx = *item;
            *item += 1;
            let label = format!("{} n={}..{}", ty, chunk[0], chunk[chunk.len() - 1]);
            if !ctx.scenario(idx, &label) {
                continue;
            }
            match ty {
                "dd" => dd_block(ctx, chunk),
                "wide" => wide_block(ctx, chunk),
                _ => {
                    // the counting type: SIMD planners decline, the automatic planner constructs and plans
                    simd_must_decline::<crate::types::Counting>(ctx);
                    if let Some((pid, mut pl)) = ctx.new_planner::<crate::types::Counting>(Kind::Auto) {
                        for &n in chunk {
                            ctx.case(format!("cnt {}", n), n >= 2);
                            ctx.plan(pid, &mut pl, n, DIRS[n % 2], false);
                        }
                    }
                }
            }
        }
    }
}

#[allow(dead_code)]
fn _u(_: Value, _: CDD) -> i64 {
    err_q::<f64>(&[], &[])
}
