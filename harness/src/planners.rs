//! Uniform access to the four planner kinds.
use rustfft::{Fft, FftDirection, FftNum, FftPlanner, FftPlannerAvx, FftPlannerScalar, FftPlannerSse};
use std::panic::{catch_unwind, AssertUnwindSafe};
use std::sync::Arc;

#[derive(Clone, Copy, PartialEq, Eq, Debug, Hash)]
pub enum Kind {
    Auto,
    Scalar,
    Sse,
    Avx,
}
pub const ALL_KINDS: [Kind; 4] = [Kind::Auto, Kind::Scalar, Kind::Sse, Kind::Avx];
impl Kind {
    pub fn name(self) -> &'static str {
        match self {
            Kind::Auto => "auto",
            Kind::Scalar => "scalar",
            Kind::Sse => "sse",
            Kind::Avx => "avx",
        }
    }
    pub fn parse(s: &str) -> Option<Kind> {
        ALL_KINDS.iter().copied().find(|k| k.name() == s)
    }
}

pub fn dir_name(d: FftDirection) -> &'static str {
    match d {
        FftDirection::Forward => "F",
        FftDirection::Inverse => "I",
    }
}
pub const DIRS: [FftDirection; 2] = [FftDirection::Forward, FftDirection::Inverse];

pub enum AnyPlanner<T: FftNum> {
    Auto(FftPlanner<T>),
    Scalar(FftPlannerScalar<T>),
    Sse(FftPlannerSse<T>),
    Avx(FftPlannerAvx<T>),
}

pub enum NewResult<T: FftNum> {
    Ok(AnyPlanner<T>),
    Err,
    Panic(String),
}

pub fn panic_msg(e: Box<dyn std::any::Any + Send>) -> String {
    if let Some(s) = e.downcast_ref::<&str>() {
        s.to_string()
    } else if let Some(s) = e.downcast_ref::<String>() {
        s.clone()
    } else {
        "<non-string panic>".to_string()
    }
}

impl<T: FftNum> AnyPlanner<T> {
    pub fn new(kind: Kind) -> NewResult<T> {
        let _lib = crate::calls::LibScope::enter();
        let r = catch_unwind(|| match kind {
            Kind::Auto => Ok(AnyPlanner::Auto(FftPlanner::new())),
            Kind::Scalar => Ok(AnyPlanner::Scalar(FftPlannerScalar::new())),
            Kind::Sse => FftPlannerSse::new().map(AnyPlanner::Sse),
            Kind::Avx => FftPlannerAvx::new().map(AnyPlanner::Avx),
        });
        match r {
            Ok(Ok(p)) => NewResult::Ok(p),
            Ok(Err(())) => NewResult::Err,
            Err(e) => NewResult::Panic(panic_msg(e)),
        }
    }
    pub fn kind(&self) -> Kind {
        match self {
            AnyPlanner::Auto(_) => Kind::Auto,
            AnyPlanner::Scalar(_) => Kind::Scalar,
            AnyPlanner::Sse(_) => Kind::Sse,
            AnyPlanner::Avx(_) => Kind::Avx,
        }
    }
    pub fn backend(&self) -> &'static str {
        match self {
            AnyPlanner::Auto(p) => p.verif_backend(),
            AnyPlanner::Scalar(_) => "scalar",
            AnyPlanner::Sse(_) => "sse",
            AnyPlanner::Avx(_) => "avx",
        }
    }
    /// plan (and build); a panic is data
    pub fn plan(&mut self, len: usize, dir: FftDirection) -> Result<Arc<dyn Fft<T>>, String> {
        let _lib = crate::calls::LibScope::enter();
        catch_unwind(AssertUnwindSafe(|| match self {
            AnyPlanner::Auto(p) => p.plan_fft(len, dir),
            AnyPlanner::Scalar(p) => p.plan_fft(len, dir),
            AnyPlanner::Sse(p) => p.plan_fft(len, dir),
            AnyPlanner::Avx(p) => p.plan_fft(len, dir),
        }))
        .map_err(panic_msg)
    }
    /// plan report without building (None for the automatic planner, which has no report of its own)
    pub fn report(&mut self, len: usize, dir: FftDirection) -> Option<Result<String, String>> {
        let _lib = crate::calls::LibScope::enter();
        match self {
            AnyPlanner::Auto(_) => None,
            AnyPlanner::Scalar(p) => Some(catch_unwind(AssertUnwindSafe(|| p.verif_design(len))).map_err(panic_msg)),
            #[cfg(feature = "sse")]
            AnyPlanner::Sse(p) => Some(catch_unwind(AssertUnwindSafe(|| p.verif_design(len))).map_err(panic_msg)),
            #[cfg(feature = "avx")]
            AnyPlanner::Avx(p) => Some(catch_unwind(AssertUnwindSafe(|| p.verif_plan(len, dir))).map_err(panic_msg)),
            // a planner that is compiled out can never be constructed, so there is nothing to report
            #[allow(unreachable_patterns)]
            _ => {
                let _ = dir;
                None
            }
        }
    }
}
