//! Exact DFT semantics in R = GF(p)[i]/(i^2+1), see DESIGN.md section 3.3.
//!
//! Two passes around any constructor / planner call with element type `Fp`:
//!   pass 1 (`record`) collects every f64 that the library converts with `from_f64`;
//!   `Field::build` identifies each as a dyadic rational or cos(2 pi a/b), picks N = lcm(8, b's),
//!   a prime p = kN+1 and g of order N, and tabulates bit-pattern -> field element;
//!   pass 2 (`with_exact`) rebuilds the same transform with exact constants.
use crate::refdft;
use crate::types::{fp_set_modulus, invmod, mulmod, powmod, F64Mode, Fp, FP_F64};
use crate::util::{is_prime_u64, lcm, prime_factors};
use rustfft::num_complex::Complex;
use std::collections::HashMap;

#[derive(Clone, Copy, Debug, PartialEq)]
pub enum Ident {
    Dyadic(i64, u32), // m / 2^e
    Cos(u64, u64),    // cos(2 pi a/b), gcd(a,b)=1, 0 <= a/b <= 1/2
    Float(u64),       // any other finite f64 (bit pattern): it IS a dyadic rational m * 2^e, and is mapped to exactly that
}

#[derive(Debug)]
pub enum FieldErr {
    Unidentified(f64),
    Ambiguous(f64),
    TooLarge,
    NoPrime,
}

const TOL_ACCEPT: f64 = 3e-15;
const TOL_STEER: f64 = 4e-15;

fn simplest_in(lo: f64, hi: f64, bmax: u64) -> Option<(u64, u64)> {
    // fraction with the smallest denominator in [lo, hi], 0 <= lo <= hi <= 1
    if lo <= 0.0 {
        return Some((0, 1));
    }
    if hi >= 1.0 {
        return Some((1, 1));
    }
    let (mut a, mut b, mut c, mut d) = (0u64, 1u64, 1u64, 1u64);
    loop {
        let mn = a + c;
        let md = b + d;
        if md > bmax {
            return None;
        }
        let m = mn as f64 / md as f64;
        if m < lo {
            // advance left bound by k mediants towards c/d: (a+kc)/(b+kd) < lo
            let num = lo * b as f64 - a as f64;
            let den = c as f64 - lo * d as f64;
            let mut k = if den > 0.0 { (num / den).floor() as u64 } else { 1 };
            if k < 1 {
                k = 1;
            }
            while k > 1 && ((a + k * c) as f64 / (b + k * d) as f64) >= lo {
                k -= 1;
            }
            a += k * c;
            b += k * d;
        } else if m > hi {
            let num = c as f64 - hi * d as f64;
            let den = hi * b as f64 - a as f64;
            let mut k = if den > 0.0 { (num / den).floor() as u64 } else { 1 };
            if k < 1 {
                k = 1;
            }
            while k > 1 && ((c + k * a) as f64 / (d + k * b) as f64) <= hi {
                k -= 1;
            }
            c += k * a;
            d += k * b;
        } else {
            return Some((mn, md));
        }
        if b > bmax && d > bmax {
            return None;
        }
    }
}

pub fn identify(v: f64, bmax: u64) -> Result<Ident, FieldErr> {
    if !v.is_finite() {
        return Err(FieldErr::Unidentified(v));
    }
    // short dyadic rationals first (0, +-1, +-0.5, 2, ...)
    for e in 0..=20u32 {
        let s = v * (1u64 << e) as f64;
        if s == s.round() && s.abs() < (1u64 << 20) as f64 {
            return Ok(Ident::Dyadic(s as i64, e));
        }
    }
    if v.abs() > 1.0 + TOL_ACCEPT {
        return Ok(Ident::Float(v.to_bits()));
    }
    let two_pi = 2.0 * std::f64::consts::PI;
    let lo = ((v + TOL_STEER).min(1.0)).acos() / two_pi;
    let hi = ((v - TOL_STEER).max(-1.0)).acos() / two_pi;
    // A constant that is not the cosine of any rational angle with denominator <= bmax is not a twiddle factor.  It is
    // still an exact number (every f64 is m * 2^e) and the homomorphism Z[1/2] -> GF(p) maps it exactly: the transform is then
    // evaluated with precisely the constant the library asked for.  If the library's algebra needs the constant to be, say,
    // 1/36 exactly, the f64 nearest to 1/36 makes the exact result differ from the DFT - which is what C14 is about.
    let (a, b) = match simplest_in(lo, hi, bmax) {
        Some(x) => x,
        None => return Ok(Ident::Float(v.to_bits())),
    };
    // accept only if the exact cosine matches
    let exact = refdft::twiddle(a, b).re.to_f64();
    if (exact - v).abs() > TOL_ACCEPT {
        return Ok(Ident::Float(v.to_bits()));
    }
    // unambiguous? any other fraction with denominator <= bmax differs by >= 1/(b*bmax)
    if (hi - lo) >= 1.0 / (b as f64 * bmax as f64) {
        return Err(FieldErr::Ambiguous(v));
    }
    Ok(Ident::Cos(a, b))
}

pub struct Field {
    pub p: u64,
    pub big_n: u64,
    pub g: u64,
    pub table: HashMap<u64, u64>,
    pub idents: usize,
}

impl Field {
    /// cos(2 pi k / N) image
    pub fn c(&self, k: u64) -> u64 {
        let k = k % self.big_n;
        let gk = powmod(self.g, k, self.p);
        let gmk = powmod(self.g, self.big_n - k, self.p);
        let s = (gk + gmk) % self.p;
        mulmod(s, invmod(2, self.p), self.p)
    }
    /// sin(2 pi k / N) image = cos(2 pi (k - N/4)/N)
    pub fn s(&self, k: u64) -> u64 {
        self.c((k % self.big_n) + self.big_n - self.big_n / 4)
    }
    /// exp(-+ 2 pi i j / n) as an element of R, n | N
    pub fn root(&self, j: u64, n: u64, inverse: bool) -> Complex<Fp> {
        assert!(self.big_n % n == 0);
        let k = (j % n) * (self.big_n / n);
        let re = self.c(k);
        let s = self.s(k);
        let im = if inverse { s } else { (self.p - s) % self.p };
        Complex { re: Fp(re), im: Fp(im) }
    }

    /// Build the field from the recorded constants. `must_divide` are lengths n that must divide N.
    /// `small` asks for p < 2^20 (for TLC re-computation); otherwise p < 2^62.
    pub fn build(recorded: &[f64], bmax: u64, must_divide: &[u64], small: bool) -> Result<Field, FieldErr> {
        let mut distinct: HashMap<u64, Ident> = HashMap::new();
        let mut big_n: u64 = 8;
        for n in must_divide {
            if *n > 0 {
                big_n = lcm(big_n, *n).ok_or(FieldErr::TooLarge)?;
            }
        }
        for &v in recorded {
            let bits = v.to_bits();
            if distinct.contains_key(&bits) {
                continue;
            }
            let id = identify(v, bmax)?;
            if let Ident::Cos(_, b) = id {
                big_n = lcm(big_n, b).ok_or(FieldErr::TooLarge)?;
                if big_n > (1u64 << 56) {
                    return Err(FieldErr::TooLarge);
                }
            }
            distinct.insert(bits, id);
        }
        let limit: u64 = if small { 1 << 20 } else { 1 << 62 };
        let mut p = 0u64;
        let mut k = 1u64;
        loop {
            let cand = match k.checked_mul(big_n).and_then(|x| x.checked_add(1)) {
                Some(c) if c < limit => c,
                _ => return Err(FieldErr::NoPrime),
            };
            if is_prime_u64(cand) {
                p = cand;
                break;
            }
            k += 1;
            if k > 200_000 {
                break;
            }
        }
        if p == 0 {
            return Err(FieldErr::NoPrime);
        }
        // element of order exactly N
        let qs = prime_factors(big_n);
        let mut g = 0u64;
        for r in 2..2000u64 {
            let cand = powmod(r, (p - 1) / big_n, p);
            if qs.iter().all(|&q| powmod(cand, big_n / q, p) != 1) {
                g = cand;
                break;
            }
        }
        assert!(g != 0, "no generator found");
        let mut f = Field {
            p,
            big_n,
            g,
            table: HashMap::new(),
            idents: distinct.len(),
        };
        for (bits, id) in distinct {
            let val = match id {
                Ident::Dyadic(m, e) => {
                    let mm = ((m as i128 % p as i128 + p as i128) % p as i128) as u64;
                    mulmod(mm, invmod(powmod(2, e as u64, p), p), p)
                }
                Ident::Cos(a, b) => f.c(a * (big_n / b)),
                Ident::Float(fb) => {
                    // v = (-1)^s * m * 2^e with m < 2^53
                    let sign = fb >> 63;
                    let ebits = ((fb >> 52) & 0x7ff) as i64;
                    let frac = fb & ((1u64 << 52) - 1);
                    let (m, e) = if ebits == 0 { (frac, -1074i64) } else { (frac | (1u64 << 52), ebits - 1075) };
                    let mm = m % p;
                    let pow = if e >= 0 { powmod(2, e as u64, p) } else { invmod(powmod(2, (-e) as u64, p), p) };
                    let val = mulmod(mm, pow, p);
                    if sign == 1 { (p - val) % p } else { val }
                }
            };
            f.table.insert(bits, val);
        }
        Ok(f)
    }

    /// naive DFT in R (the oracle): X[k] = sum_j x[j] w^(jk)
    pub fn dft(&self, x: &[Complex<Fp>], inverse: bool) -> Vec<Complex<Fp>> {
        let n = x.len() as u64;
        if n == 0 {
            return vec![];
        }
        let roots: Vec<Complex<Fp>> = (0..n).map(|j| self.root(j, n, inverse)).collect();
        (0..n as usize)
            .map(|k| self.dft_at(x, k, &roots))
            .collect()
    }
    pub fn dft_at(&self, x: &[Complex<Fp>], k: usize, roots: &[Complex<Fp>]) -> Complex<Fp> {
        let n = x.len();
        let mut acc = Complex { re: Fp(0), im: Fp(0) };
        let mut idx = 0usize;
        for j in 0..n {
            acc = acc + x[j] * roots[idx];
            idx += k;
            if idx >= n {
                idx -= n;
            }
        }
        acc
    }
    pub fn roots(&self, n: u64, inverse: bool) -> Vec<Complex<Fp>> {
        (0..n).map(|j| self.root(j, n, inverse)).collect()
    }
}

/// pass 1: run `f` with `Fp::from_f64` in recording mode and return what it converted
pub fn record<R>(f: impl FnOnce() -> R) -> (R, Vec<f64>) {
    fp_set_modulus(2305843009213693951);
    FP_F64.with(|m| *m.borrow_mut() = F64Mode::Record(Vec::new()));
    let r = f();
    let rec = FP_F64.with(|m| match std::mem::replace(&mut *m.borrow_mut(), F64Mode::Record(Vec::new())) {
        F64Mode::Record(v) => v,
        F64Mode::Exact(_, v) => v,
    });
    (r, rec)
}

/// pass 2: run `f` with exact constants; returns the number of table misses (must be 0 to trust the result)
pub fn with_exact<R>(field: &Field, f: impl FnOnce() -> R) -> (R, usize) {
    fp_set_modulus(field.p);
    FP_F64.with(|m| *m.borrow_mut() = F64Mode::Exact(field.table.clone(), Vec::new()));
    let r = f();
    let misses = FP_F64.with(|m| match &*m.borrow() {
        F64Mode::Exact(_, v) => v.len(),
        _ => 0,
    });
    (r, misses)
}
