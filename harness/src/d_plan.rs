//! Drivers for C04 (every planner plans every length) and C05 (work / workspace bounds).
use crate::calls::{Entry, ALL_ENTRIES};
use crate::ctx::{Ctx, Elem, Planned};
use crate::planners::{dir_name, AnyPlanner, Kind, ALL_KINDS, DIRS};
use crate::real::{bits_equal, gen_input, Real};
use crate::recipe::{flatten_avx, flatten_recipe, parse_debug, Flat};
use crate::types::{ops_get, ops_reset, Counting};
use crate::util::{pattern_lengths, structured_lengths};
use rustfft::num_complex::Complex;
use rustfft::num_traits::Zero;
use rustfft::FftDirection;
use serde_json::{json, Value};

fn zero_len_and_identity<T: Real + Elem>(ctx: &mut Ctx, pl: &Planned<T>) {
    if pl.n == 0 {
        // a length-0 transform accepts an empty buffer through every entry point
        for e in ALL_ENTRIES {
            let scratch = vec![Complex::<T>::zero(); pl.adv[e.scratch_index()]];
            ctx.call(pl, e, &[], &[], &scratch, None, json!({"family": "empty"}), |_r| vec![]);
        }
    } else if pl.n == 1 {
        // a length-1 transform is the identity
        for e in ALL_ENTRIES {
            let input = vec![Complex { re: T::of_f64(0.8125), im: T::of_f64(-3.5) }];
            let scratch = vec![Complex::<T>::zero(); pl.adv[e.scratch_index()]];
            let out = vec![Complex::<T>::zero(); if e.two_buffers() { 1 } else { 0 }];
            let inp = input.clone();
            ctx.call(pl, e, &input, &out, &scratch, None, json!({"family": "one"}), move |r| {
                vec![json!({"kind": "identity", "equal": bits_equal(&r.result, &inp)})]
            });
        }
    }
}

fn built_sweep<T: Real + Elem>(ctx: &mut Ctx, kind: Kind, lens: &[usize], block: usize, item0: &mut usize) {
    for chunk in lens.chunks(block) {
        let idx = *item0;
        *item0 += 1;
        if !ctx.scenario(idx, &format!("built {} {} n={}..", kind.name(), T::ELEM, chunk[0])) {
            continue;
        }
        let hooks = idx % 3 == 0;
        if let Some((pid, mut planner)) = ctx.new_planner::<T>(kind) {
            for &n in chunk {
                // alternate which direction is planned first
                let order = if n % 2 == 0 { [DIRS[0], DIRS[1]] } else { [DIRS[1], DIRS[0]] };
                for d in order {
                    ctx.case(format!("b {} {} {} {}", kind.name(), T::ELEM, n, dir_name(d)), n >= 2);
                    if let Some(pl) = ctx.plan(pid, &mut planner, n, d, hooks) {
                        zero_len_and_identity(ctx, &pl);
                    }
                }
            }
        }
    }
}

/// Plan report -> flat tree JSON
pub fn report_tree<T: Elem>(planner: &mut AnyPlanner<T>, n: usize, dir: FftDirection) -> Option<Result<Value, String>> {
    let rep = planner.report(n, dir)?;
    Some(rep.and_then(|txt| {
        let dbg = parse_debug(&txt)?;
        let mut flat = Flat::default();
        match planner.kind() {
            Kind::Avx => {
                let mut inner = |len: u64| -> Result<String, String> {
                    match planner.report(len as usize, dir) {
                        Some(r) => r,
                        None => Err("no report".into()),
                    }
                };
                flatten_avx(&dbg, &mut flat, &mut inner, 0)?;
            }
            _ => {
                flatten_recipe(&dbg, &mut flat);
            }
        }
        Ok(flat.to_json())
    }))
}

/// length of the transform described by a flat plan tree (same rules as spec/Recipe.tla NodeLen); None for unknown kinds
fn flat_len(tree: &Value) -> Option<u64> {
    let nodes = tree.as_array()?;
    let mut lens: Vec<Option<u64>> = Vec::with_capacity(nodes.len());
    for nd in nodes {
        let k = nd["k"].as_str()?;
        let p: Vec<u64> = nd["p"].as_array()?.iter().filter_map(|x| x.as_u64()).collect();
        let ch: Vec<Option<u64>> = nd["ch"].as_array()?.iter().map(|c| c.as_u64().and_then(|i| lens.get(i as usize - 1).copied().flatten())).collect();
        let c = |i: usize| -> Option<u64> { ch.get(i).copied().flatten() };
        let l = match k {
            "Dft" | "Butterfly" | "PrimeButterfly" | "ButterflyBase" | "CacheBase" | "RadersBase" | "BluesteinsBase" | "BluesteinsAlgorithm" => p.first().copied(),
            "MixedRadix" | "MixedRadixSmall" | "GoodThomasAlgorithm" | "GoodThomasAlgorithmSmall" => Some(c(0)? * c(1)?),
            "RadersAlgorithm" => Some(c(0)? + 1),
            "RadixN" => Some(c(0)? * p.iter().product::<u64>()),
            "Radix4" => Some(c(0)? * 4u64.pow(*p.first()? as u32)),
            "AvxRadix" => Some(c(0)? * p.first()?),
            _ => None,
        };
        lens.push(l);
    }
    lens.last().copied().flatten()
}

fn report_sweep<T: Elem>(ctx: &mut Ctx, kind: Kind, lens: &[usize], block: usize, item0: &mut usize) {
    for chunk in lens.chunks(block) {
        let idx = *item0;
        *item0 += 1;
        if !ctx.scenario(idx, &format!("report {} {} n={}..", kind.name(), T::ELEM, chunk[0])) {
            continue;
        }
        if let Some((pid, mut planner)) = ctx.new_planner::<T>(kind) {
            for &n in chunk {
                let d = if n % 2 == 0 { FftDirection::Forward } else { FftDirection::Inverse };
                ctx.case(format!("r {} {} {}", kind.name(), T::ELEM, n), n >= 2);
                match report_tree(&mut planner, n, d) {
                    None => {}
                    Some(Ok(tree)) => {
                        let suspect = flat_len(&tree) != Some(n as u64);
                        ctx.tr.emit(
                            "PlanReport",
                            json!({"pid": pid, "n": n, "dir": dir_name(d), "outcome": "ok", "tree": tree}),
                        );
                        // A report whose tree does not multiply out to n is only a suspicion (the reader of the report is
                        // part of the harness): look closer by really building that length; TLC judges the real PlanEnd.
                        if suspect && n <= (1 << 22) {
                            ctx.tr.emit("Note", json!({"what": "suspect-report-built", "n": n, "kind": kind.name()}));
                            if let Some((pid2, mut fresh)) = ctx.new_planner::<T>(kind) {
                                ctx.plan(pid2, &mut fresh, n, d, false);
                                ctx.plan(pid2, &mut fresh, n, d.opposite_direction(), false);
                            }
                        }
                    }
                    Some(Err(msg)) => ctx.tr.emit(
                        "PlanReport",
                        json!({"pid": pid, "n": n, "dir": dir_name(d), "outcome": "panic", "tree": [],
                               "msg": msg.chars().take(200).collect::<String>()}),
                    ),
                }
            }
        }
    }
}

pub fn lens_upto(n_max: usize, structured_max: usize) -> Vec<usize> {
    let mut v: Vec<usize> = (0..=n_max).collect();
    for s in structured_lengths(structured_max as u64) {
        if s as usize > n_max {
            v.push(s as usize);
        }
    }
    v
}

pub fn run_c04(ctx: &mut Ctx) {
    let (n_built, s_built, n_rep, s_rep) = if ctx.quick() {
        (1024, 1 << 15, 8192, 1 << 22)
    } else {
        (16384, 1 << 18, 1 << 18, 1 << 22)
    };
    let mut item = 0usize;
    let built = lens_upto(n_built, s_built);
    for kind in ALL_KINDS {
        built_sweep::<f32>(ctx, kind, &built, 32, &mut item);
        built_sweep::<f64>(ctx, kind, &built, 32, &mut item);
    }
    let mut rep = lens_upto(n_rep, s_rep);
    rep.extend(pattern_lengths(s_rep as u64).into_iter().map(|x| x as usize).filter(|&x| x > n_rep));
    rep.sort();
    rep.dedup();
    report_sweep::<f64>(ctx, Kind::Scalar, &rep, 256, &mut item);
    report_sweep::<f64>(ctx, Kind::Sse, &rep, 256, &mut item);
    report_sweep::<f32>(ctx, Kind::Avx, &rep, 256, &mut item);
    report_sweep::<f64>(ctx, Kind::Avx, &rep, 256, &mut item);
    // a sample of the pattern lengths is also built (up to 2^17): a panic or wrong length inside a constructor shows only there
    let pat: Vec<usize> = pattern_lengths(1 << 17).into_iter().map(|x| x as usize).filter(|&x| x > n_built).collect();
    let step = if ctx.quick() { 7 } else { 1 };
    let sample: Vec<usize> = pat.iter().copied().enumerate().filter(|(i, _)| i % step == (ctx.seed as usize) % step).map(|(_, x)| x).collect();
    for kind in ALL_KINDS {
        built_sweep::<f32>(ctx, kind, &sample, 32, &mut item);
        built_sweep::<f64>(ctx, kind, &sample, 32, &mut item);
    }
}

// ------------------------------------------------------------------------------------------------
// C05
// ------------------------------------------------------------------------------------------------
fn ops_sweep(ctx: &mut Ctx, lens: &[usize], block: usize, item0: &mut usize) {
    for chunk in lens.chunks(block) {
        let idx = *item0;
        *item0 += 1;
        if !ctx.scenario(idx, &format!("ops n={}..", chunk[0])) {
            continue;
        }
        if let Some((pid, mut planner)) = ctx.new_planner::<Counting>(Kind::Auto) {
            for &n in chunk {
                if n < 2 {
                    continue;
                }
                let d = if n % 2 == 0 { FftDirection::Forward } else { FftDirection::Inverse };
                ctx.case(format!("o {}", n), true);
                if let Some(pl) = ctx.plan(pid, &mut planner, n, d, false) {
                    let mk = |rng: &mut crate::util::Rng, scale: f64| -> Vec<Complex<Counting>> {
                        (0..n)
                            .map(|_| Complex { re: Counting(scale * (rng.unit() - 0.5)), im: Counting(scale * rng.unit()) })
                            .collect()
                    };
                    let a = mk(&mut ctx.rng, 1.0);
                    // second input: different values including zeros and huge magnitudes
                    let mut b = mk(&mut ctx.rng, 1e30);
                    for j in (0..n).step_by(3) {
                        b[j] = Complex { re: Counting(0.0), im: Counting(0.0) };
                    }
                    let scratch = vec![Complex { re: Counting(0.0), im: Counting(0.0) }; pl.adv[0]];
                    let cid = ctx.call_begin(pl.iid, Entry::Inplace, &a, 0, scratch.len(), json!({"family": "ops"}));
                    let mut buf = a.clone();
                    let mut s1 = scratch.clone();
                    ops_reset();
                    let r1 = crate::calls::lib_catch((|| pl.fft.process_with_scratch(&mut buf, &mut s1)));
                    let ops_a = ops_get();
                    let mut buf2 = b.clone();
                    let mut s2 = scratch.clone();
                    ops_reset();
                    let r2 = crate::calls::lib_catch((|| pl.fft.process_with_scratch(&mut buf2, &mut s2)));
                    let ops_b = ops_get();
                    let panic = if r1.is_err() || r2.is_err() { Some("panic in counting run".to_string()) } else { None };
                    let sat = |x: u64| x.min((1 << 27) - 1);
                    ctx.call_end(
                        cid,
                        &panic,
                        vec![json!({"kind": "ops", "a": sat(ops_a), "b": sat(ops_b)})],
                        "none",
                        "",
                        [0, 0],
                    );
                }
            }
        }
    }
}

/// The scratch bound must hold for every transform a planner returns, whatever it planned before: each block of
/// lengths is planned on one planner with multiples first (16n, 6n, then n, descending), so that sub-transforms
/// cached while planning a larger length are what the smaller request receives.
fn multiples_first_sweep<T: Real + Elem>(ctx: &mut Ctx, kind: Kind, lens: &[usize], block: usize, item0: &mut usize) {
    for chunk in lens.chunks(block) {
        let idx = *item0;
        *item0 += 1;
        if !ctx.scenario(idx, &format!("multiples-first {} {} n={}..", kind.name(), T::ELEM, chunk[0])) {
            continue;
        }
        if let Some((pid, mut planner)) = ctx.new_planner::<T>(kind) {
            let d = DIRS[chunk[0] % 2];
            for mult in [16usize, 6, 1] {
                for &n in chunk.iter().rev() {
                    if n < 2 || n * mult > (1 << 21) {
                        continue;
                    }
                    ctx.case(format!("m {} {} {}x{}", kind.name(), T::ELEM, mult, n), true);
                    ctx.plan(pid, &mut planner, n * mult, d, false);
                }
            }
        }
    }
}

pub fn run_c05(ctx: &mut Ctx) {
    let (n_built, s_built, n_rep, s_rep, n_ops, s_ops) = if ctx.quick() {
        (1024, 1 << 15, 8192, 1 << 22, 2048, 1 << 15)
    } else {
        (8192, 1 << 18, 1 << 18, 1 << 22, 16384, 1 << 16)
    };
    let mut item = 0usize;
    // (a) advertised scratch of every built transform, all planners
    let built = lens_upto(n_built, s_built);
    for kind in ALL_KINDS {
        built_sweep::<f32>(ctx, kind, &built, 32, &mut item);
        built_sweep::<f64>(ctx, kind, &built, 32, &mut item);
    }
    let hist: Vec<usize> = if ctx.quick() { (2..=512).collect() } else { (2..=4096).collect() };
    for kind in ALL_KINDS {
        multiples_first_sweep::<f32>(ctx, kind, &hist, 16, &mut item);
        multiples_first_sweep::<f64>(ctx, kind, &hist, 16, &mut item);
    }
    // (b) plan reports: no naive node above 32
    let mut rep = lens_upto(n_rep, s_rep);
    rep.extend(pattern_lengths(s_rep as u64).into_iter().map(|x| x as usize).filter(|&x| x > n_rep));
    rep.sort();
    rep.dedup();
    report_sweep::<f64>(ctx, Kind::Scalar, &rep, 256, &mut item);
    report_sweep::<f64>(ctx, Kind::Sse, &rep, 256, &mut item);
    report_sweep::<f32>(ctx, Kind::Avx, &rep, 256, &mut item);
    report_sweep::<f64>(ctx, Kind::Avx, &rep, 256, &mut item);
    // (c) operation counts through the automatic planner with a counting element type (=> portable code)
    let mut ops = lens_upto(n_ops, s_ops);
    // safe primes (n = 2q+1) across the octaves up to 2^17: chains of prime-length reductions are where the work bound is tightest
    let sp: Vec<usize> = [(1u64 << 10, 1u64 << 11), (1 << 12, 1 << 13), (1 << 14, 1 << 15), (1 << 15, 1 << 16), (1 << 16, 1 << 17)]
        .iter()
        .flat_map(|&(lo, hi)| crate::util::safe_primes(lo, hi).into_iter().take(if !ctx.quick() { 200 } else if lo >= (1 << 16) { 8 } else { 4 }))
        .map(|x| x as usize)
        .collect();
    let extra: Vec<usize> = sp.iter().copied().filter(|x| !ops.contains(x)).collect();
    ops.extend(extra);
    ops_sweep(ctx, &ops, 64, &mut item);
    for kind in ALL_KINDS {
        built_sweep::<f32>(ctx, kind, &sp, 8, &mut item);
        built_sweep::<f64>(ctx, kind, &sp, 8, &mut item);
    }
}

#[allow(dead_code)]
pub fn unused<T: Real>() {
    let mut r = crate::util::Rng::new(1);
    let _ = gen_input::<T>("uniform", 4, 0, &mut r);
}
