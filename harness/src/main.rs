//! rfv: conformance harness binding the TLA+ specification of RustFFT to the real library.
//! Usage: rfv <driver> --out <trace.ndjson> [--tier quick|thorough] [--seed N] [--shard i/m] [--scenarios file]
mod calls;
mod ctx;
mod d_ctor;
mod d_exact;
mod d_hist;
mod d_threads;
mod d_variants;
mod d_num;
mod d_plan;
mod d_shape;
mod ev;
mod fpfield;
mod mem;
mod planners;
mod real;
mod recipe;
mod refdft;
mod types;
mod util;

use ctx::{Ctx, Tier};
use serde_json::json;

fn main() {
    let args: Vec<String> = std::env::args().collect();
    if args.len() < 2 {
        eprintln!("usage: rfv <driver> --out FILE [--tier T] [--seed N] [--shard i/m]");
        std::process::exit(2);
    }
    let driver = args[1].clone();
    let mut out = String::new();
    let mut tier = Tier::Quick;
    let mut seed = 1u64;
    let mut shard = 0usize;
    let mut shards = 1usize;
    let mut scenarios = String::new();
    let mut mask: Option<u32> = None;
    let mut only: Option<String> = None;
    let mut i = 2;
    while i < args.len() {
        match args[i].as_str() {
            "--out" => {
                out = args[i + 1].clone();
                i += 1
            }
            "--tier" => {
                tier = if args[i + 1] == "thorough" { Tier::Thorough } else { Tier::Quick };
                i += 1
            }
            "--seed" => {
                seed = args[i + 1].parse().unwrap_or(1);
                i += 1
            }
            "--shard" => {
                let p: Vec<&str> = args[i + 1].split('/').collect();
                shard = p[0].parse().unwrap();
                shards = p[1].parse().unwrap();
                i += 1
            }
            "--scenarios" => {
                scenarios = args[i + 1].clone();
                i += 1
            }
            "--no-guard" => {
                calls::NO_GUARD.store(true, std::sync::atomic::Ordering::Relaxed);
            }
            "--only" => {
                only = Some(args[i + 1].clone());
                i += 1
            }
            "--mask" => {
                mask = Some(args[i + 1].parse().unwrap());
                i += 1
            }
            other => {
                eprintln!("unknown argument {}", other);
                std::process::exit(2);
            }
        }
        i += 1;
    }
    if let Some(m) = mask {
        rustfft::verif_hooks::set_feature_mask(m);
    }
    // panics of the code under test are data; keep stderr quiet
    std::panic::set_hook(Box::new(|info| {
        // a panic raised while the library is being called is an observation; anything else is a harness problem: say where
        if !calls::in_library() {
            eprintln!("rfv: unexpected panic outside a library call: {}", info);
        }
    }));

    if driver == "selftest" {
        let w = refdft::selftest();
        println!("{}", json!({"refdft_worst": w}));
        std::process::exit(if w < 1e-25 { 0 } else { 2 });
    }
    if driver == "plantrees" {
        // flat plan trees of the scalar and SSE planners for n = 2..max (for bin/gen_execplan_cfgs.py)
        use crate::planners::{AnyPlanner, Kind, NewResult};
        let max: usize = seed as usize;
        for kind in [Kind::Scalar, Kind::Sse] {
            if let NewResult::Ok(mut p) = AnyPlanner::<f64>::new(kind) {
                for n in 2..=max {
                    if let Some(Ok(tree)) = d_plan::report_tree(&mut p, n, rustfft::FftDirection::Forward) {
                        println!("{}", json!({"kind": kind.name(), "n": n, "tree": tree}));
                    }
                }
            }
        }
        return;
    }
    if driver == "kernelops" {
        // exact operation counts of the primitive kernels (for spec/KernelOps.tla)
        use rustfft::num_complex::Complex;
        use rustfft::{Fft, FftDirection, FftPlannerScalar};
        let mut m = serde_json::Map::new();
        let mut planner = FftPlannerScalar::<types::Counting>::new();
        for n in [2usize, 3, 4, 5, 6, 7, 8, 9, 11, 12, 13, 16, 17, 19, 23, 24, 27, 29, 31, 32] {
            let fft = planner.plan_fft(n, FftDirection::Forward);
            let mut buf = vec![Complex { re: types::Counting(1.0), im: types::Counting(2.0) }; n];
            let mut scratch = vec![Complex { re: types::Counting(0.0), im: types::Counting(0.0) }; fft.get_inplace_scratch_len()];
            types::ops_reset();
            fft.process_with_scratch(&mut buf, &mut scratch);
            m.insert(format!("B{}", n), json!(types::ops_get()));
        }
        for n in [0usize, 1, 2, 3, 5, 6, 10] {
            let fft = rustfft::algorithm::Dft::new(n, FftDirection::Forward);
            let mut buf = vec![Complex { re: types::Counting(1.0), im: types::Counting(2.0) }; n];
            let mut scratch = vec![Complex { re: types::Counting(0.0), im: types::Counting(0.0) }; n];
            types::ops_reset();
            fft.process_with_scratch(&mut buf, &mut scratch);
            m.insert(format!("Dft{}", n), json!(types::ops_get()));
        }
        println!("{}", serde_json::Value::Object(m));
        return;
    }
    if out.is_empty() {
        eprintln!("--out required");
        std::process::exit(2);
    }
    let prop = driver.to_uppercase();
    let mut ctx = Ctx::new(&out, &prop, seed, tier, shard, shards);
    ctx.only = only;
    match driver.as_str() {
        "c04" => d_plan::run_c04(&mut ctx),
        "c05" => d_plan::run_c05(&mut ctx),
        "c01" => {
            d_num::run_accuracy(&mut ctx, false);
            d_exact::run_exact(&mut ctx, false);
        }
        "c14" => d_exact::run_exact(&mut ctx, true),
        "c10" => d_hist::run_c10(&mut ctx, &scenarios),
        "c13" => d_variants::run_c13(&mut ctx),
        "c12" => d_ctor::run_c12(&mut ctx, &scenarios),
        "c11" => d_threads::run_c11(&mut ctx, &scenarios),
        "c02" => d_num::run_accuracy(&mut ctx, true),
        "c06" => d_num::run_c06(&mut ctx),
        "c07" => d_num::run_c07(&mut ctx),
        "c08" => d_num::run_c08(&mut ctx),
        "c15" => {
            let item = d_num::run_c15(&mut ctx);
            d_ctor::run_c15_trees(&mut ctx, &scenarios, item);
        }
        "c09" => d_shape::run_c09(&mut ctx),
        "c03" => d_shape::run_c03(&mut ctx),
        _ => {
            eprintln!("unknown driver {}", driver);
            std::process::exit(2);
        }
    }
    ctx.tr.flush();
    println!(
        "{}",
        json!({"driver": driver, "shard": shard, "shards": shards, "scenarios": ctx.scenarios, "events": ctx.tr.seq(), "counts": ctx.tr.counts, "nontrivial_count": ctx.nontrivial})
    );
}
