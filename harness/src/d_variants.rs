//! C13: every SIMD capability level (emulated by the H1 mask) and cargo-feature combination (one harness
//! build per feature set). Under the configuration of this process: which planner constructors succeed,
//! and reduced C01/C02 (reference DFT, impulses), C03 (guard pages) and C04 (plan every n) sweeps.
use crate::calls::{Entry, ALL_ENTRIES};
use crate::ctx::{Ctx, Elem};
use crate::mem::Align;
use crate::planners::{dir_name, ALL_KINDS, DIRS};
use crate::real::{err_q, gen_input, phase_digest, to_cdd, Real};
use crate::refdft;
use crate::types::Counting;
use crate::util::{big_lengths, structured_lengths};
use rustfft::num_complex::Complex;
use rustfft::num_traits::Zero;
use rustfft::FftDirection;
use serde_json::json;

fn variant_block<T: Real + Elem>(ctx: &mut Ctx, lens: &[usize]) {
    ctx.flush_calls = true;
    ctx.mixed_type_constructors();
    // a custom element type: SIMD planners must decline whatever the configuration
    for k in ALL_KINDS {
        let _ = ctx.new_planner::<Counting>(k);
    }
    let mut pls = Vec::new();
    for k in ALL_KINDS {
        if let Some(p) = ctx.new_planner::<T>(k) {
            pls.push(p);
        }
    }
    for &n in lens {
        for d in DIRS {
            let x: Vec<Complex<T>> = gen_input("uniform", n, 0, &mut ctx.rng);
            let reference = refdft::fft(&to_cdd(&x), d == FftDirection::Inverse);
            for (pid, p) in pls.iter_mut() {
                let kind = p.kind();
                ctx.case(format!("{} {} {} {}", kind.name(), T::ELEM, n, dir_name(d)), n >= 2);
                let pl = match ctx.plan(*pid, p, n, d, false) {
                    Some(pl) => pl,
                    None => continue,
                };
                if n == 0 {
                    continue;
                }
                let z = Complex::<T>::zero();
                for (ei, e) in ALL_ENTRIES.iter().copied().enumerate() {
                    if (n + ei) % 2 == 1 && e != Entry::Immut {
                        continue;
                    }
                    let scratch = vec![z; pl.adv[e.scratch_index()]];
                    let out = vec![z; if e.two_buffers() { n } else { 0 }];
                    let al = if (n + ei) % 4 < 2 { Align::End } else { Align::Start };
                    let rf = &reference;
                    ctx.call(&pl, e, &x, &out, &scratch, Some(al), json!({"family": "uniform"}), |r| {
                        if r.panic.is_some() {
                            return vec![];
                        }
                        vec![json!({"kind": "err", "ref": "dft", "err_q": err_q(&r.result, rf)})]
                    });
                }
                if n <= 48 {
                    for j in [1 % n, n / 2, n - 1] {
                        let xi: Vec<Complex<T>> = gen_input("impulse", n, j, &mut ctx.rng);
                        let e = ALL_ENTRIES[(j + n) % 4];
                        let scratch = vec![z; pl.adv[e.scratch_index()]];
                        let out = vec![z; if e.two_buffers() { n } else { 0 }];
                        ctx.call(&pl, e, &xi, &out, &scratch, Some(Align::End), json!({"family": "impulse", "j": j}), |r| {
                            if r.panic.is_some() {
                                return vec![];
                            }
                            let (ph, ok) = phase_digest(&r.result);
                            vec![json!({"kind": "phase", "j": j, "phase": ph, "mag_ok": ok})]
                        });
                    }
                }
            }
        }
    }
}

pub fn run_c13(ctx: &mut Ctx) {
    let (n_max, s_max) = if ctx.quick() { (1024, 1 << 14) } else { (4096, 1 << 16) };
    let mut lens: Vec<usize> = (0..=n_max).collect();
    let dense = (8 * n_max).min(s_max);
    lens.extend(structured_lengths(dense as u64).into_iter().map(|x| x as usize).filter(|&x| x > n_max));
    lens.extend(big_lengths(dense as u64, s_max as u64).into_iter().map(|x| x as usize));
    // the large-prime paths are where the capability levels differ most (RadersAvx2 with 32/64-bit index vectors, the portable
    // Rader inside the AVX planner without AVX2, SSE, scalar): a sample of the Rader-friendly primes above 2^16, and a Bluestein prime
    let step = if ctx.quick() { 9 } else { 2 };
    lens.extend(crate::util::rader_primes(1 << 16, 1 << 17).into_iter().enumerate().filter(|(i, _)| i % step == (ctx.seed as usize) % step).map(|(_, p)| p as usize));
    lens.push(65543);
    let mut item = 0;
    for b in lens.chunks(8) {
        for elem in ["f32", "f64"] {
            let idx = item;
            item += 1;
            let label = format!("variant {} n={}..{}", elem, b[0], b[b.len() - 1]);
            if !ctx.scenario(idx, &label) {
                continue;
            }
            if elem == "f32" {
                variant_block::<f32>(ctx, b);
            } else {
                variant_block::<f64>(ctx, b);
            }
        }
    }
}
