//! ndjson trace writer. One JSON object per line; `seq` is a per-process sequence number.
use serde_json::{json, Map, Value};
use std::fs::File;
use std::io::{BufWriter, Write};

pub struct Trace {
    w: BufWriter<File>,
    seq: u64,
    pub counts: std::collections::BTreeMap<String, u64>,
}
impl Trace {
    pub fn create(path: &str) -> Trace {
        let f = File::create(path).unwrap_or_else(|e| panic!("cannot create {}: {}", path, e));
        Trace {
            w: BufWriter::with_capacity(1 << 16, f),
            seq: 0,
            counts: Default::default(),
        }
    }
    pub fn emit(&mut self, ev: &str, mut fields: Value) {
        self.seq += 1;
        let obj = fields.as_object_mut().expect("event fields must be an object");
        let mut m = Map::new();
        m.insert("ev".into(), json!(ev));
        m.insert("seq".into(), json!(self.seq));
        for (k, v) in obj.iter() {
            m.insert(k.clone(), v.clone());
        }
        serde_json::to_writer(&mut self.w, &Value::Object(m)).unwrap();
        self.w.write_all(b"\n").unwrap();
        *self.counts.entry(ev.to_string()).or_insert(0) += 1;
    }
    /// make everything written so far durable (called before entering code that may crash the process)
    pub fn flush(&mut self) {
        self.w.flush().unwrap();
    }
    pub fn seq(&self) -> u64 {
        self.seq
    }
}
impl Drop for Trace {
    fn drop(&mut self) {
        let _ = self.w.flush();
    }
}
