//! Call-shape drivers: C09 (ill-shaped calls panic, well-shaped never do) and C03 (no access outside
//! the caller's buffers: guard pages at both ends, read-only inputs, exact scratch).
use crate::calls::{Entry, ALL_ENTRIES};
use crate::ctx::{Ctx, Elem, Planned};
use crate::mem::Align;
use crate::planners::{dir_name, AnyPlanner, ALL_KINDS, DIRS};
use crate::real::{err_q, gen_input, to_cdd, Real};
use crate::util::{big_lengths, rader_primes, structured_lengths};
use rustfft::num_complex::Complex;
use rustfft::num_traits::Zero;
use serde_json::json;

fn czero<T: Real>() -> Complex<T> {
    Complex::zero()
}

#[derive(Clone, Copy, Debug)]
pub struct Shape {
    pub data: usize,
    pub out: usize,
    pub scratch: usize,
}

/// The shape classes of the property text, instantiated for a transform of length n with advertised scratch adv.
/// One-factor-at-a-time around the nominal well-shaped call plus a few combinations.
pub fn shape_classes(n: usize, adv: usize, two_buf: bool, has_scratch: bool, salt: usize) -> Vec<(Shape, &'static str)> {
    let k = 2 + salt % 3; // 2..4
    let mut v: Vec<(Shape, &'static str)> = Vec::new();
    let datas: Vec<(usize, &'static str)> = vec![
        (n, "n"),
        (k * n, "kn"),
        (1, "1"),
        (n.saturating_sub(1), "n-1"),
        (n + 1, "n+1"),
        (2 * n - 1.min(2 * n), "2n-1"),
        (2 * n + 1, "2n+1"),
        ((k * n).saturating_sub(1), "kn-1"),
        (k * n + 1, "kn+1"),
        (0, "0"),
    ];
    for (d, name) in &datas {
        v.push((Shape { data: *d, out: if two_buf { *d } else { 0 }, scratch: adv }, name));
    }
    if two_buf {
        for base in [n, k * n] {
            v.push((Shape { data: base, out: base + 1, scratch: adv }, "out+1"));
            v.push((Shape { data: base, out: base.saturating_sub(1), scratch: adv }, "out-1"));
            v.push((Shape { data: base, out: base + n, scratch: adv }, "out+n"));
            v.push((Shape { data: base, out: base - n, scratch: adv }, "out-n"));
        }
    }
    if has_scratch {
        for base in [n, k * n] {
            let o = if two_buf { base } else { 0 };
            v.push((Shape { data: base, out: o, scratch: 0 }, "scr0"));
            v.push((Shape { data: base, out: o, scratch: adv.saturating_sub(1) }, "scr-1"));
            v.push((Shape { data: base, out: o, scratch: adv + 1 }, "scr+1"));
        }
        // combinations
        v.push((Shape { data: k * n + 1, out: if two_buf { k * n + 1 } else { 0 }, scratch: adv.saturating_sub(1) }, "kn+1,scr-1"));
        v.push((Shape { data: 0, out: 0, scratch: adv.saturating_sub(1) }, "0,scr-1"));
        if two_buf {
            v.push((Shape { data: n, out: n + 1, scratch: 0 }, "out+1,scr0"));
            v.push((Shape { data: 0, out: n, scratch: adv }, "0,out n"));
        }
    }
    v
}

fn single<T: Real + Elem>(pl: &Planned<T>, chunk: &[Complex<T>]) -> Option<Vec<Complex<T>>> {
    let mut buf = chunk.to_vec();
    let mut s = vec![czero::<T>(); pl.adv[0]];
    let f = pl.fft.clone();
    crate::calls::lib_catch((|| f.process_with_scratch(&mut buf, &mut s))).ok()?;
    Some(buf)
}

fn shapes_block<T: Real + Elem>(ctx: &mut Ctx, lens: &[usize], guard: bool) {
    let mut pls: Vec<(u64, AnyPlanner<T>)> = Vec::new();
    for k in ALL_KINDS {
        if let Some(p) = ctx.new_planner::<T>(k) {
            pls.push(p);
        }
    }
    // ill-shaped calls always run on guard-paged buffers: an out-of-bounds write must become a signal (a Crash
    // event), never silent heap corruption of the harness
    let _ = guard;
    ctx.flush_calls = true;
    ctx.chunk_events = lens[0] % 8 == 1;
    for &n in lens {
        for (pid, p) in pls.iter_mut() {
            let kind = p.kind();
            let d = DIRS[(n + *pid as usize) % 2];
            let pl = match ctx.plan(*pid, p, n, d, false) {
                Some(pl) => pl,
                None => continue,
            };
            for (ei, e) in ALL_ENTRIES.iter().copied().enumerate() {
                let adv = pl.adv[e.scratch_index()];
                let classes = shape_classes(n, adv, e.two_buffers(), e != Entry::Process, n + ei);
                for (ci, (sh, cname)) in classes.iter().enumerate() {
                    if e == Entry::Process && sh.scratch != adv {
                        continue;
                    }
                    ctx.case(format!("{} {} {} {} {}", kind.name(), T::ELEM, n, e.name(), cname), true);
                    let x: Vec<Complex<T>> = gen_input("uniform", sh.data, 0, &mut ctx.rng);
                    let out = vec![czero::<T>(); sh.out];
                    let scratch = vec![czero::<T>(); if e == Entry::Process { 0 } else { sh.scratch }];
                    let g = Some(if (n + ci + ei) % 2 == 0 { Align::End } else { Align::Start });
                    let plr = &pl;
                    let xin = x.clone();
                    ctx.call(&pl, e, &x, &out, &scratch, g, json!({"class": cname}), move |r| {
                        if r.panic.is_some() || n == 0 || xin.is_empty() {
                            return vec![];
                        }
                        // on a normal return every chunk must have been transformed
                        let mut by_chunk = Vec::new();
                        for (c, res) in xin.chunks(n).zip(r.result.chunks(n)) {
                            if c.len() < n {
                                by_chunk.push(false);
                                continue;
                            }
                            let ok = match single(plr, c) {
                                Some(s) => err_q(res, &to_cdd(&s)) < (1 << 22),
                                None => false,
                            };
                            by_chunk.push(ok);
                        }
                        if r.result.len() != xin.len() {
                            by_chunk.push(false);
                        }
                        vec![json!({"kind": "transformed", "by_chunk": by_chunk})]
                    });
                }
            }
        }
    }
}

fn shape_lens(n_max: usize, s_max: usize) -> Vec<Vec<usize>> {
    let all: Vec<usize> = (1..=n_max).collect();
    let mut out: Vec<Vec<usize>> = all.chunks(4).map(|c| c.to_vec()).collect();
    let dense_max = (8 * n_max).min(s_max);
    let mut st: Vec<usize> = structured_lengths(dense_max as u64).into_iter().map(|x| x as usize).filter(|&x| x > n_max).collect();
    st.extend(big_lengths(dense_max as u64, s_max as u64).into_iter().map(|x| x as usize));
    for c in st.chunks(2) {
        out.push(c.to_vec());
    }
    out
}

pub fn run_c09(ctx: &mut Ctx) {
    let (n_max, s_max) = if ctx.quick() { (96, 1 << 12) } else { (320, 1 << 14) };
    let mut item = 0;
    for b in shape_lens(n_max, s_max) {
        for elem in ["f32", "f64"] {
            let idx = item;
            item += 1;
            let label = format!("shapes {} n={}..{}", elem, b[0], b[b.len() - 1]);
            if !ctx.scenario(idx, &label) {
                continue;
            }
            if elem == "f32" {
                shapes_block::<f32>(ctx, &b, false);
            } else {
                shapes_block::<f64>(ctx, &b, false);
            }
        }
    }
}

// ------------------------------------------------------------------------------------------------
// C03: guard pages; well-shaped calls with k = 1..8 and exact scratch, plus the ill-shaped classes
// ------------------------------------------------------------------------------------------------
fn guarded_block<T: Real + Elem>(ctx: &mut Ctx, lens: &[usize]) {
    let mut pls: Vec<(u64, AnyPlanner<T>)> = Vec::new();
    for k in ALL_KINDS {
        if let Some(p) = ctx.new_planner::<T>(k) {
            pls.push(p);
        }
    }
    ctx.flush_calls = true;
    for &n in lens {
        for (pid, p) in pls.iter_mut() {
            let kind = p.kind();
            for d in DIRS {
                let pl = match ctx.plan(*pid, p, n, d, false) {
                    Some(pl) => pl,
                    None => continue,
                };
                for (ei, e) in ALL_ENTRIES.iter().copied().enumerate() {
                    let adv = pl.adv[e.scratch_index()];
                    // well-shaped, chunk counts rotating through 1..8, both alignments
                    for (ai, al) in [Align::End, Align::Start].into_iter().enumerate() {
                        let k = 1 + (n + ei * 3 + ai * 5 + if d == DIRS[0] { 0 } else { 2 }) % 8;
                        ctx.case(format!("{} {} {} {} {} k{} {:?}", kind.name(), T::ELEM, n, dir_name(d), e.name(), k, al), true);
                        let x: Vec<Complex<T>> = gen_input("uniform", n * k, 0, &mut ctx.rng);
                        let out = vec![czero::<T>(); if e.two_buffers() { n * k } else { 0 }];
                        let scratch = vec![czero::<T>(); if e == Entry::Process { 0 } else { adv }];
                        ctx.call(&pl, e, &x, &out, &scratch, Some(al), json!({"k": k, "align": format!("{:?}", al)}), |_r| vec![]);
                    }
                }
            }
            // ill-shaped classes (one direction)
            let d = DIRS[n % 2];
            if let Some(pl) = ctx.plan(*pid, p, n, d, false) {
                for (ei, e) in ALL_ENTRIES.iter().copied().enumerate() {
                    let adv = pl.adv[e.scratch_index()];
                    for (ci, (sh, cname)) in shape_classes(n, adv, e.two_buffers(), e != Entry::Process, n + ei).iter().enumerate() {
                        if e == Entry::Process && sh.scratch != adv {
                            continue;
                        }
                        if (ci + n + ei) % 2 == 1 {
                            continue; // half of the classes per (n, entry); the other half at n+1
                        }
                        ctx.case(format!("{} {} {} {} {}", kind.name(), T::ELEM, n, e.name(), cname), true);
                        let x: Vec<Complex<T>> = gen_input("uniform", sh.data, 0, &mut ctx.rng);
                        let out = vec![czero::<T>(); sh.out];
                        let scratch = vec![czero::<T>(); if e == Entry::Process { 0 } else { sh.scratch }];
                        let al = if (n + ci) % 2 == 0 { Align::End } else { Align::Start };
                        ctx.call(&pl, e, &x, &out, &scratch, Some(al), json!({"class": cname}), |_r| vec![]);
                    }
                }
            }
        }
    }
}

pub fn run_c03(ctx: &mut Ctx) {
    let (n_max, s_max) = if crate::ctx::light() {
        (if ctx.quick() { 72 } else { 300 }, 0)
    } else if ctx.quick() {
        (256, 1 << 14)
    } else {
        (2048, 1 << 17)
    };
    let mut item = 0;
    let mut all = shape_lens(n_max, s_max);
    // Rader-friendly primes above 2^16 (index arithmetic of the SIMD gather kernels changes regime there), a sample in quick
    let (plo, phi, step) = if ctx.quick() { (1u64 << 16, 1u64 << 17, 4) } else { (1u64 << 16, 1u64 << 19, 1) };
    for (i, p) in rader_primes(plo, phi).into_iter().enumerate() {
        if i % step == 0 && !crate::ctx::light() {
            all.push(vec![p as usize]);
        }
    }
    for b in all {
        for elem in ["f32", "f64"] {
            let idx = item;
            item += 1;
            let label = format!("guard {} n={}..{}", elem, b[0], b[b.len() - 1]);
            if !ctx.scenario(idx, &label) {
                continue;
            }
            if elem == "f32" {
                guarded_block::<f32>(ctx, &b);
            } else {
                guarded_block::<f64>(ctx, &b);
            }
        }
    }
}
