//! C11: transforms are immutable, shareable across threads and deterministic.
//!  (a) forced schedules: two threads call one shared instance; the chunk-boundary hook (H4) blocks each
//!      thread until the schedule (from spec/Threads.tla via --scenarios, or the built-in context-bounded
//!      enumeration) hands it the baton;
//!  (b) free-running: 16 threads x R rounds on shared instances, mixed entry points and chunk counts;
//!  every concurrent output must equal, bit for bit, the sequential reference recorded first.
use crate::calls::{run_call, Entry, SCRATCH_ENTRIES};
use crate::ctx::{hash2, Ctx, Elem, Planned};
use crate::planners::{dir_name, Kind, ALL_KINDS, DIRS};
use crate::real::{gen_input, Real};
use crate::util::Rng;
use rustfft::num_complex::Complex;
use rustfft::num_traits::Zero;
use rustfft::verif_hooks;
use rustfft::Fft;
use serde_json::{json, Value};
use std::sync::{Arc, Condvar, Mutex};

/// yield points per call in spec/Threads.tla (constant Steps of MC_Threads.cfg)
const ABSTRACT_STEPS: usize = 4;
const LENS: [usize; 14] = [6, 30, 37, 47, 60, 64, 96, 120, 128, 210, 256, 384, 1009, 1031];

struct Sched {
    segs: Vec<(usize, usize)>, // (thread, remaining yield points)
    cursor: usize,
    done: [bool; 2],
    progress: u64,   // bumped at every yield point / completion
    abandoned: bool, // the schedule could not be followed: the thread whose turn it was is blocked (e.g. on a lock the parked thread holds)
}
type Baton = Arc<(Mutex<Sched>, Condvar)>;

/// A parked thread whose partner makes no progress for this long concludes that the partner is blocked on something the
/// parked thread holds (a lock taken inside the library): the forced order is infeasible, so both run freely from here on.
/// Blocking is not a violation; the outputs are still compared with the sequential reference.
const STALL: std::time::Duration = std::time::Duration::from_millis(1500);

fn yield_point(b: &Baton, me: usize) {
    let (m, cv) = &**b;
    let mut s = m.lock().unwrap();
    s.progress += 1;
    loop {
        if s.abandoned || s.cursor >= s.segs.len() {
            return;
        }
        let cur = s.cursor;
        let (who, left) = s.segs[cur];
        if s.done[who] || left == 0 {
            s.cursor += 1;
            cv.notify_all();
            continue;
        }
        if who == me {
            s.segs[cur].1 -= 1;
            return;
        }
        let seen = s.progress;
        let (g, to) = cv.wait_timeout(s, STALL).unwrap();
        s = g;
        if to.timed_out() && s.progress == seen && !s.done[who] {
            s.abandoned = true;
            cv.notify_all();
            return;
        }
    }
}
fn finished(b: &Baton, me: usize) {
    let (m, cv) = &**b;
    let mut s = m.lock().unwrap();
    s.done[me] = true;
    s.progress += 1;
    cv.notify_all();
}

#[derive(Clone)]
struct CallPlan<T: Real> {
    entry: Entry,
    k: usize,
    x: Vec<Complex<T>>,
}

fn do_call<T: Real>(fft: &dyn Fft<T>, adv: [usize; 3], n: usize, c: &CallPlan<T>) -> (Option<String>, Vec<Complex<T>>) {
    let z = Complex::<T>::zero();
    let scratch = vec![z; adv[c.entry.scratch_index()]];
    let out = vec![z; if c.entry.two_buffers() { n * c.k } else { 0 }];
    let r = run_call(fft, c.entry, &c.x, &out, &scratch, None);
    (r.panic, r.result)
}

fn count_yield_points<T: Real>(fft: &dyn Fft<T>, adv: [usize; 3], n: usize, c: &CallPlan<T>) -> usize {
    verif_hooks::start_recording(true);
    let _ = do_call(fft, adv, n, c);
    verif_hooks::take_events()
        .iter()
        .filter(|e| matches!(e, verif_hooks::VerifEvent::Chunk { .. }))
        .count()
}

fn emit_ref<T: Real + Elem>(ctx: &mut Ctx, pl: &Planned<T>, c: &CallPlan<T>, key: &str) -> Option<Vec<Complex<T>>> {
    let cid = ctx.call_begin(pl.iid, c.entry, &c.x, if c.entry.two_buffers() { c.x.len() } else { 0 }, pl.adv[c.entry.scratch_index()], json!({"k": c.k, "thread": "seq"}));
    let (panic, res) = do_call(&*pl.fft, pl.adv, pl.n, c);
    let obs = if panic.is_none() { vec![json!({"kind": "hash"})] } else { vec![] };
    ctx.call_end(cid, &panic, obs, "ref", key, hash2(&res));
    if panic.is_none() {
        Some(res)
    } else {
        None
    }
}

fn forced_schedules<T: Real + Elem>(ctx: &mut Ctx, pl: &Planned<T>, given: &[Vec<(usize, usize)>]) {
    let n = pl.n;
    let mut rng = Rng::new(ctx.seed + n as u64);
    let ca = CallPlan { entry: SCRATCH_ENTRIES[n % 3], k: 2, x: gen_input::<T>("uniform", 2 * n, 0, &mut rng) };
    let cb = CallPlan { entry: SCRATCH_ENTRIES[(n + 1) % 3], k: 1 + n % 2, x: gen_input::<T>("normal", (1 + n % 2) * n, 0, &mut rng) };
    let key_a = format!("{}:{}:A", n, dir_name(pl.dir));
    let key_b = format!("{}:{}:B", n, dir_name(pl.dir));
    if emit_ref(ctx, pl, &ca, &key_a).is_none() || emit_ref(ctx, pl, &cb, &key_b).is_none() {
        return;
    }
    let ya = count_yield_points(&*pl.fft, pl.adv, n, &ca);
    let yb = count_yield_points(&*pl.fft, pl.adv, n, &cb);
    let pick = |y: usize| -> Vec<usize> {
        let mut v = vec![0, 1, 2, y / 2, y.saturating_sub(1), y];
        v.retain(|&i| i <= y);
        v.sort();
        v.dedup();
        v
    };
    let mut schedules: Vec<Vec<(usize, usize)>> = Vec::new();
    // built-in context-bounded enumeration (<= 2 preemptions) over this call's real yield points
    for i in pick(ya) {
        for j in pick(yb) {
            schedules.push(vec![(0, i), (1, j), (0, usize::MAX), (1, usize::MAX)]);
            schedules.push(vec![(1, j), (0, i), (1, usize::MAX), (0, usize::MAX)]);
        }
    }
    // schedules enumerated by TLC (spec/Threads.tla) over abstract calls; step count 99 means "run to the end"
    for g in given {
        let scale = |t: usize, s: usize| -> usize {
            let y = if t == 0 { ya } else { yb };
            (s * y + ABSTRACT_STEPS - 1) / ABSTRACT_STEPS
        };
        schedules.push(g.iter().map(|&(t, s)| (t, if s >= 90 { usize::MAX } else { scale(t, s) })).collect());
    }
    for (si, segs) in schedules.iter().enumerate() {
        ctx.case(format!("forced {} {} {} {} #{}", pl.n, T::ELEM, dir_name(pl.dir), pl.iid, si), true);
        let baton: Baton = Arc::new((Mutex::new(Sched { segs: segs.clone(), cursor: 0, done: [false, false], progress: 0, abandoned: false }), Condvar::new()));
        let fft = pl.fft.clone();
        let adv = pl.adv;
        let results: Vec<(Option<String>, Vec<Complex<T>>)> = std::thread::scope(|s| {
            let hs: Vec<_> = [(0usize, &ca), (1usize, &cb)]
                .into_iter()
                .map(|(me, c)| {
                    let baton = baton.clone();
                    let fft = fft.clone();
                    s.spawn(move || {
                        let b2 = baton.clone();
                        verif_hooks::set_yield_callback(Some(Box::new(move |_ev| yield_point(&b2, me))));
                        let r = do_call(&*fft, adv, n, c);
                        verif_hooks::set_yield_callback(None);
                        finished(&baton, me);
                        r
                    })
                })
                .collect();
            hs.into_iter().map(|h| h.join().unwrap_or((Some("thread panicked".into()), vec![]))).collect()
        });
        // both calls were in flight at the same time: two CallBegin, then two CallEnd
        let sched_desc: Vec<Value> = segs.iter().map(|(t, s)| json!([if *t == 0 { "A" } else { "B" }, if *s == usize::MAX { -1 } else { *s as i64 }])).collect();
        let c1 = ctx.call_begin(pl.iid, ca.entry, &ca.x, if ca.entry.two_buffers() { ca.x.len() } else { 0 }, adv[ca.entry.scratch_index()], json!({"thread": "A", "schedule": sched_desc, "abandoned": baton.0.lock().unwrap().abandoned}));
        let c2 = ctx.call_begin(pl.iid, cb.entry, &cb.x, if cb.entry.two_buffers() { cb.x.len() } else { 0 }, adv[cb.entry.scratch_index()], json!({"thread": "B"}));
        for (cid, (panic, res), key) in [(c1, &results[0], &key_a), (c2, &results[1], &key_b)] {
            let obs = if panic.is_none() { vec![json!({"kind": "hash"})] } else { vec![] };
            ctx.call_end(cid, panic, obs, "check", key, hash2(res));
        }
    }
}

/// Cold start: the concurrent calls are the very FIRST calls ever made on a freshly planned instance (lazily built or
/// cached per-instance state would be initialised under contention); the isolated reference calls are made afterwards on
/// the same instance.  Forced two-thread schedules park one thread inside its first call while the other runs a whole
/// call; a burst releases 8 threads together through a barrier.
fn cold_start<T: Real + Elem>(ctx: &mut Ctx, kind: Kind, n: usize, d: rustfft::FftDirection) {
    let mut rng = Rng::new(ctx.seed ^ 0xC01D ^ n as u64);
    let ca = CallPlan { entry: SCRATCH_ENTRIES[n % 3], k: 1, x: gen_input::<T>("uniform", n, 0, &mut rng) };
    let cb = CallPlan { entry: crate::calls::ALL_ENTRIES[(n + 1) % 4], k: 2, x: gen_input::<T>("normal", 2 * n, 0, &mut rng) };
    let schedules: Vec<Vec<(usize, usize)>> = vec![
        vec![(0, 1), (1, usize::MAX), (0, usize::MAX)],
        vec![(1, 1), (0, usize::MAX), (1, usize::MAX)],
        vec![(0, 2), (1, usize::MAX), (0, usize::MAX)],
        vec![(0, 3), (1, 2), (0, usize::MAX), (1, usize::MAX)],
    ];
    for (si, segs) in schedules.iter().enumerate() {
        let (pid, mut planner) = match ctx.new_planner::<T>(kind) {
            Some(x) => x,
            None => return,
        };
        let pl = match ctx.plan(pid, &mut planner, n, d, false) {
            Some(pl) => pl,
            None => return,
        };
        ctx.case(format!("cold {} {} {} #{}", kind.name(), T::ELEM, n, si), true);
        let baton: Baton = Arc::new((Mutex::new(Sched { segs: segs.clone(), cursor: 0, done: [false, false], progress: 0, abandoned: false }), Condvar::new()));
        let fft = pl.fft.clone();
        let adv = pl.adv;
        let results: Vec<(Option<String>, Vec<Complex<T>>)> = std::thread::scope(|s| {
            let hs: Vec<_> = [(0usize, &ca), (1usize, &cb)]
                .into_iter()
                .map(|(me, c)| {
                    let baton = baton.clone();
                    let fft = fft.clone();
                    s.spawn(move || {
                        let b2 = baton.clone();
                        verif_hooks::set_yield_callback(Some(Box::new(move |_ev| yield_point(&b2, me))));
                        let r = do_call(&*fft, adv, n, c);
                        verif_hooks::set_yield_callback(None);
                        finished(&baton, me);
                        r
                    })
                })
                .collect();
            hs.into_iter().map(|h| h.join().unwrap_or((Some("thread panicked".into()), vec![]))).collect()
        });
        // isolated reference calls, made after the concurrent ones on the same instance
        let key_a = format!("cold:{}:{}:A", pl.iid, si);
        let key_b = format!("cold:{}:{}:B", pl.iid, si);
        if emit_ref(ctx, &pl, &ca, &key_a).is_none() || emit_ref(ctx, &pl, &cb, &key_b).is_none() {
            continue;
        }
        let abandoned = baton.0.lock().unwrap().abandoned;
        let c1 = ctx.call_begin(pl.iid, ca.entry, &ca.x, if ca.entry.two_buffers() { ca.x.len() } else { 0 }, adv[ca.entry.scratch_index()], json!({"thread": "A", "cold": true, "abandoned": abandoned}));
        let c2 = ctx.call_begin(pl.iid, cb.entry, &cb.x, if cb.entry.two_buffers() { cb.x.len() } else { 0 }, adv[cb.entry.scratch_index()], json!({"thread": "B", "cold": true}));
        for (cid, (panic, res), key) in [(c1, &results[0], &key_a), (c2, &results[1], &key_b)] {
            let obs = if panic.is_none() { vec![json!({"kind": "hash"})] } else { vec![] };
            ctx.call_end(cid, panic, obs, "check", key, hash2(res));
        }
        // second opinion: isolated calls on a TWIN instance (fresh planner, never called concurrently) - an instance that the
        // overlapping first calls damaged for good would agree with its own later reference calls
        if let Some((pid2, mut planner2)) = ctx.new_planner::<T>(kind) {
            if let Some(pl2) = ctx.plan(pid2, &mut planner2, n, d, false) {
                let key_ta = format!("cold-twin:{}:{}:A", pl.iid, si);
                let key_tb = format!("cold-twin:{}:{}:B", pl.iid, si);
                if emit_ref(ctx, &pl2, &ca, &key_ta).is_some() && emit_ref(ctx, &pl2, &cb, &key_tb).is_some() {
                    let c1 = ctx.call_begin(pl.iid, ca.entry, &ca.x, if ca.entry.two_buffers() { ca.x.len() } else { 0 }, adv[ca.entry.scratch_index()], json!({"thread": "A", "cold": true, "vs": "twin"}));
                    let c2 = ctx.call_begin(pl.iid, cb.entry, &cb.x, if cb.entry.two_buffers() { cb.x.len() } else { 0 }, adv[cb.entry.scratch_index()], json!({"thread": "B", "cold": true, "vs": "twin"}));
                    for (cid, (panic, res), key) in [(c1, &results[0], &key_ta), (c2, &results[1], &key_tb)] {
                        let obs = if panic.is_none() { vec![json!({"kind": "hash"})] } else { vec![] };
                        ctx.call_end(cid, panic, obs, "check", key, hash2(res));
                    }
                }
            }
        }
    }
    // burst: 8 threads released together on a fresh instance
    let (pid, mut planner) = match ctx.new_planner::<T>(kind) {
        Some(x) => x,
        None => return,
    };
    let pl = match ctx.plan(pid, &mut planner, n, d, false) {
        Some(pl) => pl,
        None => return,
    };
    let barrier = std::sync::Barrier::new(8);
    let fft = pl.fft.clone();
    let adv = pl.adv;
    let results: Vec<(Option<String>, Vec<Complex<T>>)> = std::thread::scope(|s| {
        let hs: Vec<_> = (0..8)
            .map(|t| {
                let (b, fft, c) = (&barrier, fft.clone(), if t % 2 == 0 { &ca } else { &cb });
                s.spawn(move || {
                    b.wait();
                    do_call(&*fft, adv, n, c)
                })
            })
            .collect();
        hs.into_iter().map(|h| h.join().unwrap_or((Some("thread panicked".into()), vec![]))).collect()
    });
    let key_a = format!("burst:{}:A", pl.iid);
    let key_b = format!("burst:{}:B", pl.iid);
    if emit_ref(ctx, &pl, &ca, &key_a).is_none() || emit_ref(ctx, &pl, &cb, &key_b).is_none() {
        return;
    }
    let mut cids = Vec::new();
    for t in 0..8 {
        let c = if t % 2 == 0 { &ca } else { &cb };
        cids.push(ctx.call_begin(pl.iid, c.entry, &c.x, if c.entry.two_buffers() { c.x.len() } else { 0 }, adv[c.entry.scratch_index()], json!({"thread": t, "cold": true})));
    }
    for (t, cid) in cids.into_iter().enumerate() {
        let (panic, res) = &results[t];
        let obs = if panic.is_none() { vec![json!({"kind": "hash"})] } else { vec![] };
        ctx.call_end(cid, panic, obs, "check", if t % 2 == 0 { &key_a } else { &key_b }, hash2(res));
    }
}


/// Thread history: what a thread computed before must not influence what it computes next.  Every instance is called on
/// inputs in the subnormal range (the values most sensitive to the floating-point environment of the calling thread) twice:
/// in a brand-new thread that does nothing else (the isolated call), and in a second thread that first runs every instance of
/// the pool on ordinary data.  Both threads start from the default MXCSR, so that the comparison does not depend on what the
/// harness's own main thread did earlier.
fn thread_history<T: Real + Elem>(ctx: &mut Ctx, pls: &[Planned<T>]) {
    if pls.is_empty() {
        return;
    }
    let tiny: f64 = if T::NAME == "f32" { 1e-41 } else { 1e-311 };
    let mut rng = Rng::new(ctx.seed ^ 0x5AC);
    fn default_fp_env() {
        #[cfg(target_arch = "x86_64")]
        unsafe {
            #[allow(deprecated)]
            std::arch::x86_64::_mm_setcsr(0x1F80);
        }
    }
    // the inputs are made in a thread with the default floating-point environment too: this (main) thread may itself have
    // been left with flush-to-zero on by an earlier library call, and would then round the subnormal samples to zero
    let seed = ctx.seed ^ 0x5AB;
    let calls: Vec<CallPlan<T>> = std::thread::scope(|s| {
        s.spawn(|| {
            default_fp_env();
            let mut rng = Rng::new(seed);
            pls.iter()
                .enumerate()
                .map(|(i, pl)| {
                    let k = 1 + i % 2;
                    let x: Vec<Complex<T>> = (0..k * pl.n)
                        .map(|_| {
                            // subnormal magnitudes throughout (an ordinary value anywhere would swamp them in every output bin)
                            let s = tiny * (1.0 + 200.0 * rng.unit());
                            Complex { re: T::of_f64(s * (2.0 * rng.unit() - 1.0)), im: T::of_f64(s * (2.0 * rng.unit() - 1.0)) }
                        })
                        .collect();
                    CallPlan { entry: crate::calls::ALL_ENTRIES[i % 4], k, x }
                })
                .collect()
        })
        .join()
        .unwrap_or_default()
    });
    if calls.len() != pls.len() {
        return;
    }
    let warm: Vec<CallPlan<T>> = pls
        .iter()
        .map(|pl| CallPlan { entry: Entry::Inplace, k: 1, x: gen_input::<T>("uniform", pl.n, 0, &mut rng) })
        .collect();
    let (isolated, after): (Vec<_>, Vec<_>) = std::thread::scope(|s| {
        let h0 = s.spawn(|| {
            default_fp_env();
            pls.iter().zip(&calls).map(|(pl, c)| do_call(&*pl.fft, pl.adv, pl.n, c)).collect::<Vec<_>>()
        });
        let iso = h0.join().unwrap_or_default();
        let h1 = s.spawn(|| {
            default_fp_env();
            for (pl, w) in pls.iter().zip(&warm) {
                let _ = do_call(&*pl.fft, pl.adv, pl.n, w);
            }
            pls.iter().zip(&calls).map(|(pl, c)| do_call(&*pl.fft, pl.adv, pl.n, c)).collect::<Vec<_>>()
        });
        (iso, h1.join().unwrap_or_default())
    });
    if isolated.len() != pls.len() || after.len() != pls.len() {
        return;
    }
    if std::env::var("RFV_DEBUG_HISTORY").is_ok() {
        for i in 0..pls.len() {
            eprintln!("history n={} in0={:e} iso[1]={:e} after[1]={:e}", pls[i].n, calls[i].x[0].re.to_f64(), isolated[i].1.get(1).map(|c| c.re.to_f64()).unwrap_or(-1.0), after[i].1.get(1).map(|c| c.re.to_f64()).unwrap_or(-1.0));
        }
    }
    for (i, pl) in pls.iter().enumerate() {
        let c = &calls[i];
        let key = format!("history:{}:{}", pl.iid, i);
        ctx.case(format!("history {} {} {}", pl.n, T::ELEM, pl.iid), true);
        for (role, (panic, res), th) in [("ref", &isolated[i], "fresh"), ("check", &after[i], "used")] {
            let cid = ctx.call_begin(pl.iid, c.entry, &c.x, if c.entry.two_buffers() { c.x.len() } else { 0 }, pl.adv[c.entry.scratch_index()], json!({"thread": th, "family": "subnormal", "k": c.k}));
            let obs = if panic.is_none() { vec![json!({"kind": "hash"})] } else { vec![] };
            ctx.call_end(cid, panic, obs, role, &key, hash2(res));
        }
    }
}

fn free_running<T: Real + Elem>(ctx: &mut Ctx, pls: &[Planned<T>], threads: usize, rounds: usize) {
    // the menu of calls, each with a sequential reference
    let mut menu: Vec<(usize, CallPlan<T>, String)> = Vec::new();
    let mut rng = Rng::new(ctx.seed ^ 0xF4EE);
    for (pi, pl) in pls.iter().enumerate() {
        for (ei, e) in crate::calls::ALL_ENTRIES.iter().copied().enumerate() {
            for k in [1usize, 2 + (pl.n + ei) % 3] {
                let c = CallPlan { entry: e, k, x: gen_input::<T>("uniform", k * pl.n, 0, &mut rng) };
                let key = format!("free:{}:{}:{}:{}", pl.iid, e.name(), k, pi);
                if emit_ref(ctx, pl, &c, &key).is_some() {
                    menu.push((pi, c, key));
                }
            }
        }
    }
    if menu.is_empty() {
        return;
    }
    let seed = ctx.seed;
    let menu_ref = &menu;
    // each thread: `rounds` calls picked from the menu; outputs hashed
    let logs: Vec<Vec<(usize, Option<String>, [u32; 2])>> = std::thread::scope(|s| {
        let hs: Vec<_> = (0..threads)
            .map(|t| {
                s.spawn(move || {
                    let mut rng = Rng::new(seed.wrapping_mul(1000003) + t as u64);
                    let mut log = Vec::with_capacity(rounds);
                    for _ in 0..rounds {
                        let mi = rng.below(menu_ref.len() as u64) as usize;
                        let (pi, c, _) = &menu_ref[mi];
                        let pl = &pls[*pi];
                        let (panic, res) = do_call(&*pl.fft, pl.adv, pl.n, c);
                        log.push((mi, panic, hash2(&res)));
                    }
                    log
                })
            })
            .collect();
        hs.into_iter().map(|h| h.join().unwrap_or_default()).collect()
    });
    // events: round r of every thread is in flight together (Begin x threads, then End x threads); per-thread order kept
    for r in 0..rounds {
        let mut cids = Vec::new();
        for (t, log) in logs.iter().enumerate() {
            if let Some((mi, _, _)) = log.get(r) {
                let (pi, c, _) = &menu[*mi];
                let pl = &pls[*pi];
                ctx.case(format!("free {} {} {}", pl.iid, c.entry.name(), c.k), true);
                let cid = ctx.call_begin(pl.iid, c.entry, &c.x, if c.entry.two_buffers() { c.x.len() } else { 0 }, pl.adv[c.entry.scratch_index()], json!({"thread": t, "round": r}));
                cids.push((t, cid));
            }
        }
        for (t, cid) in cids {
            let (mi, panic, h) = &logs[t][r];
            let obs = if panic.is_none() { vec![json!({"kind": "hash"})] } else { vec![] };
            ctx.call_end(cid, panic, obs, "check", &menu[*mi].2, *h);
        }
    }
}

fn threads_for<T: Real + Elem>(ctx: &mut Ctx, item: &mut usize, given: &[Vec<(usize, usize)>], rounds: usize) {
    for kind in ALL_KINDS {
        for (li, chunk) in LENS.chunks(2).enumerate() {
            let idx = *item;
            *item += 1;
            let label = format!("threads {} {} lens{}", kind.name(), T::ELEM, li);
            if !ctx.scenario(idx, &label) {
                continue;
            }
            let (pid, mut planner) = match ctx.new_planner::<T>(kind) {
                Some(x) => x,
                None => continue,
            };
            let mut pls = Vec::new();
            for &n in chunk {
                for d in DIRS {
                    if let Some(pl) = ctx.plan(pid, &mut planner, n, d, false) {
                        pls.push(pl);
                    }
                }
            }
            // planners are Send: move this one to another thread and plan there too
            let moved = std::thread::scope(|s| s.spawn(move || planner).join());
            let _planner = moved.ok();
            for pl in pls.iter() {
                if pl.dir == DIRS[(pl.n + li) % 2] {
                    forced_schedules(ctx, pl, given);
                }
            }
            free_running(ctx, &pls, 16, rounds);
            thread_history(ctx, &pls);
            for &n in chunk {
                cold_start::<T>(ctx, kind, n, DIRS[(n + li) % 2]);
            }
        }
    }
}

pub fn run_c11(ctx: &mut Ctx, scenarios: &str) {
    // schedules exported by TLC from spec/Threads.tla: one JSON array of [thread, steps] pairs per line
    let mut given: Vec<Vec<(usize, usize)>> = Vec::new();
    if !scenarios.is_empty() {
        if let Ok(txt) = std::fs::read_to_string(scenarios) {
            for line in txt.lines() {
                if let Ok(Value::Array(a)) = serde_json::from_str::<Value>(line) {
                    let segs: Vec<(usize, usize)> = a
                        .iter()
                        .filter_map(|p| {
                            let t = p.get(0)?.as_str()?;
                            let s = p.get(1)?.as_u64()? as usize;
                            Some((if t == "A" { 0 } else { 1 }, s))
                        })
                        .collect();
                    if !segs.is_empty() {
                        given.push(segs);
                    }
                }
            }
        }
    }
    let rounds = if ctx.quick() { 40 } else { 600 };
    let mut item = 0;
    threads_for::<f32>(ctx, &mut item, &given, rounds);
    threads_for::<f64>(ctx, &mut item, &given, rounds);
}

#[allow(dead_code)]
fn _k(_: Kind) {}
