//! Executing one call of one of the four processing entry points, with panics as data and
//! optional guard-paged buffers.
use crate::mem::Align;
use crate::planners::panic_msg;
use rustfft::num_complex::Complex;
use rustfft::{Fft, FftNum};
use std::panic::{catch_unwind, AssertUnwindSafe};

#[derive(Clone, Copy, PartialEq, Eq, Debug, Hash)]
pub enum Entry {
    Process,
    Inplace,
    Oop,
    Immut,
}
pub const ALL_ENTRIES: [Entry; 4] = [Entry::Process, Entry::Inplace, Entry::Oop, Entry::Immut];
pub const SCRATCH_ENTRIES: [Entry; 3] = [Entry::Inplace, Entry::Oop, Entry::Immut];
impl Entry {
    pub fn name(self) -> &'static str {
        match self {
            Entry::Process => "process",
            Entry::Inplace => "inplace",
            Entry::Oop => "oop",
            Entry::Immut => "immut",
        }
    }
    pub fn parse(s: &str) -> Option<Entry> {
        ALL_ENTRIES.iter().copied().find(|e| e.name() == s)
    }
    pub fn two_buffers(self) -> bool {
        matches!(self, Entry::Oop | Entry::Immut)
    }
    /// index into [inplace, outofplace, immutable] advertised scratch lengths
    pub fn scratch_index(self) -> usize {
        match self {
            Entry::Process | Entry::Inplace => 0,
            Entry::Oop => 1,
            Entry::Immut => 2,
        }
    }
}

/// when set (ASan builds) guard-paged arenas are replaced by exact-size heap buffers, which ASan surrounds with redzones
pub static NO_GUARD: std::sync::atomic::AtomicBool = std::sync::atomic::AtomicBool::new(false);

thread_local! {
    static IN_LIBRARY: std::cell::Cell<u32> = std::cell::Cell::new(0);
}
/// true while a call into the library under test is in progress on this thread (its panics are data)
pub fn in_library() -> bool {
    IN_LIBRARY.with(|c| c.get() > 0)
}
pub struct LibScope;
impl LibScope {
    pub fn enter() -> LibScope {
        IN_LIBRARY.with(|c| c.set(c.get() + 1));
        LibScope
    }
}
impl Drop for LibScope {
    fn drop(&mut self) {
        IN_LIBRARY.with(|c| c.set(c.get().saturating_sub(1)));
    }
}

/// catch_unwind around a direct call into the library
pub fn lib_catch<R>(f: impl FnOnce() -> R) -> std::thread::Result<R> {
    let _l = LibScope::enter();
    catch_unwind(AssertUnwindSafe(f))
}

pub fn advertised<T: FftNum>(fft: &dyn Fft<T>) -> [usize; 3] {
    [
        fft.get_inplace_scratch_len(),
        fft.get_outofplace_scratch_len(),
        fft.get_immutable_scratch_len(),
    ]
}

pub struct CallResult<T> {
    pub panic: Option<String>,
    /// where the transform is expected: the data buffer for in-place entries, the output buffer otherwise
    pub result: Vec<Complex<T>>,
    /// the input buffer after the call (two-buffer entries only; empty otherwise)
    pub input_after: Vec<Complex<T>>,
}

/// Run one call. `input`, `out_init` and `scratch_init` give lengths *and* initial contents.
pub fn run_call<T: FftNum>(
    fft: &dyn Fft<T>,
    entry: Entry,
    input: &[Complex<T>],
    out_init: &[Complex<T>],
    scratch_init: &[Complex<T>],
    guard: Option<Align>,
) -> CallResult<T> {
    let _lib = LibScope::enter();
    let guard = if NO_GUARD.load(std::sync::atomic::Ordering::Relaxed) { None } else { guard };
    match guard {
        None => {
            let mut data = input.to_vec();
            let mut out = out_init.to_vec();
            let mut scratch = scratch_init.to_vec();
            let r = catch_unwind(AssertUnwindSafe(|| match entry {
                Entry::Process => fft.process(&mut data),
                Entry::Inplace => fft.process_with_scratch(&mut data, &mut scratch),
                Entry::Oop => fft.process_outofplace_with_scratch(&mut data, &mut out, &mut scratch),
                Entry::Immut => fft.process_immutable_with_scratch(&data, &mut out, &mut scratch),
            }));
            finish(entry, r.err().map(panic_msg), data, out)
        }
        Some(al) => crate::mem::ARENAS.with(|ar| {
            let mut ar = ar.borrow_mut();
            let (a0, rest) = ar.split_at_mut(1);
            let (a1, a2) = rest.split_at_mut(1);
            let dp = a0[0].place(input, al);
            let op = a1[0].place(out_init, al);
            let sp = a2[0].place(scratch_init, al);
            // Safety: the three arenas are distinct mappings, each slice lies inside its arena's payload
            let (data, out, scratch) = unsafe {
                (
                    std::slice::from_raw_parts_mut(dp, input.len()),
                    std::slice::from_raw_parts_mut(op, out_init.len()),
                    std::slice::from_raw_parts_mut(sp, scratch_init.len()),
                )
            };
            if entry == Entry::Immut {
                a0[0].set_readonly(true);
            }
            let r = catch_unwind(AssertUnwindSafe(|| match entry {
                Entry::Process => fft.process(data),
                Entry::Inplace => fft.process_with_scratch(data, scratch),
                Entry::Oop => fft.process_outofplace_with_scratch(data, out, scratch),
                Entry::Immut => fft.process_immutable_with_scratch(data, out, scratch),
            }));
            if entry == Entry::Immut {
                a0[0].set_readonly(false);
            }
            finish(entry, r.err().map(panic_msg), data.to_vec(), out.to_vec())
        }),
    }
}

fn finish<T: FftNum>(entry: Entry, panic: Option<String>, data: Vec<Complex<T>>, out: Vec<Complex<T>>) -> CallResult<T> {
    if entry.two_buffers() {
        CallResult {
            panic,
            result: out,
            input_after: data,
        }
    } else {
        CallResult {
            panic,
            result: data,
            input_after: vec![],
        }
    }
}

/// classify a panic message without making the text part of any property
pub fn msg_class(m: &str) -> &'static str {
    if m.contains("multiple of FFT length") {
        "multiple"
    } else if m.contains("too small") {
        "too_small"
    } else if m.contains("same length") {
        "len_mismatch"
    } else if m.contains("scratch") {
        "scratch"
    } else if m.contains("out of range") || m.contains("out of bounds") || m.contains("mid > len") {
        "bounds"
    } else if m.contains("unsafe precondition") {
        "ub_check"
    } else {
        "other"
    }
}
