//! C12: transforms assembled from the public algorithm constructors. The trees come from TLC
//! (spec/MC_Ctor.tla, one JSON tree per line); each is built with the real constructors in both
//! directions for GF(p) (exact DFT), f64 and f32 and then put through the C01 / C03 / C07 / C08 / C09 checks.
use crate::calls::{run_call, Entry, ALL_ENTRIES, SCRATCH_ENTRIES};
use crate::ctx::{hash2, Ctx, Elem, Planned};
use crate::d_shape::shape_classes;
use crate::fpfield::{record, with_exact, Field};
use crate::mem::Align;
use crate::planners::{dir_name, AnyPlanner, Kind, NewResult, DIRS};
use crate::real::{all_finite, any_finite, bits_equal, err_q, gen_input, phase_digest, to_cdd, Real};
use crate::refdft;
use crate::types::Fp;
use rustfft::algorithm::butterflies::*;
use rustfft::algorithm::*;
use rustfft::num_complex::Complex;
use rustfft::num_traits::Zero;
use rustfft::{Fft, FftDirection, FftNum};
use serde_json::{json, Value};
use std::panic::{catch_unwind, AssertUnwindSafe};
use std::sync::Arc;

pub enum BuildErr {
    /// outside the documented preconditions of a constructor, or a planner that does not exist here: not a case
    Skip(String),
    /// a constructor (or planner) panicked although its preconditions hold
    Panic(String),
}

fn butterfly<T: FftNum>(len: u64, d: FftDirection) -> Option<Arc<dyn Fft<T>>> {
    Some(match len {
        1 => Arc::new(Butterfly1::new(d)),
        2 => Arc::new(Butterfly2::new(d)),
        3 => Arc::new(Butterfly3::new(d)),
        4 => Arc::new(Butterfly4::new(d)),
        5 => Arc::new(Butterfly5::new(d)),
        6 => Arc::new(Butterfly6::new(d)),
        7 => Arc::new(Butterfly7::new(d)),
        8 => Arc::new(Butterfly8::new(d)),
        9 => Arc::new(Butterfly9::new(d)),
        11 => Arc::new(Butterfly11::new(d)),
        12 => Arc::new(Butterfly12::new(d)),
        13 => Arc::new(Butterfly13::new(d)),
        16 => Arc::new(Butterfly16::new(d)),
        17 => Arc::new(Butterfly17::new(d)),
        19 => Arc::new(Butterfly19::new(d)),
        23 => Arc::new(Butterfly23::new(d)),
        24 => Arc::new(Butterfly24::new(d)),
        27 => Arc::new(Butterfly27::new(d)),
        29 => Arc::new(Butterfly29::new(d)),
        31 => Arc::new(Butterfly31::new(d)),
        32 => Arc::new(Butterfly32::new(d)),
        _ => return None,
    })
}

fn guarded<T: FftNum>(what: &str, f: impl FnOnce() -> Arc<dyn Fft<T>>) -> Result<Arc<dyn Fft<T>>, BuildErr> {
    crate::calls::lib_catch((f)).map_err(|e| BuildErr::Panic(format!("{}: {}", what, crate::planners::panic_msg(e))))
}

fn small_ok<T: FftNum>(f: &Arc<dyn Fft<T>>) -> bool {
    f.get_outofplace_scratch_len() == 0 && f.get_inplace_scratch_len() <= f.len()
}

/// annotation of a built node for the faithful scratch model (spec/Scratch.tla): kind, length, advertised scratch, children
fn annotate<T: FftNum>(kind: &str, fft: &Arc<dyn Fft<T>>, ch: Vec<Value>) -> Value {
    json!({"k": kind, "len": fft.len(),
           "scr": [fft.get_inplace_scratch_len(), fft.get_outofplace_scratch_len(), fft.get_immutable_scratch_len()],
           "ch": ch})
}

pub fn build_tree<T: Elem>(t: &Value, d: FftDirection) -> Result<Arc<dyn Fft<T>>, BuildErr> {
    build_annotated::<T>(t, d).map(|(f, _)| f)
}

pub fn build_annotated<T: Elem>(t: &Value, d: FftDirection) -> Result<(Arc<dyn Fft<T>>, Value), BuildErr> {
    let k = t["k"].as_str().unwrap_or("");
    let len = t["len"].as_u64().unwrap_or(0);
    let kk = t["kk"].as_u64().unwrap_or(0) as u32;
    let ch: Vec<&Value> = t["ch"].as_array().map(|a| a.iter().collect()).unwrap_or_default();
    match k {
        "Dft" => guarded("Dft::new", || Arc::new(Dft::new(len as usize, d))).map(|f| {
            let a = annotate("Dft", &f, vec![]);
            (f, a)
        }),
        "Butterfly" => butterfly::<T>(len, d).ok_or(BuildErr::Skip(format!("no Butterfly{}", len))).map(|f| {
            let a = annotate("Butterfly", &f, vec![]);
            (f, a)
        }),
        // Radix4::new / Radix3::new pick their own base butterfly: opaque to the scratch model
        "Radix4" => guarded("Radix4::new", || Arc::new(Radix4::new(len as usize, d))).map(|f| {
            let a = annotate("Opaque", &f, vec![]);
            (f, a)
        }),
        "Radix3" => guarded("Radix3::new", || Arc::new(Radix3::new(len as usize, d))).map(|f| {
            let a = annotate("Opaque", &f, vec![]);
            (f, a)
        }),
        "Planned" => {
            let kind = Kind::parse(t["pl"].as_str().unwrap_or("")).ok_or(BuildErr::Skip("unknown planner".into()))?;
            match AnyPlanner::<T>::new(kind) {
                NewResult::Ok(mut p) => p
                    .plan(len as usize, d)
                    .map_err(|m| BuildErr::Panic(format!("plan_fft({}): {}", len, m)))
                    .map(|f| {
                        let a = annotate("Opaque", &f, vec![]);
                        (f, a)
                    }),
                NewResult::Err => Err(BuildErr::Skip(format!("planner {} unavailable for {}", kind.name(), T::ELEM))),
                NewResult::Panic(m) => Err(BuildErr::Panic(m)),
            }
        }
        "MixedRadix" | "MixedRadixSmall" | "GoodThomasAlgorithm" | "GoodThomasAlgorithmSmall" => {
            let (a, aa) = build_annotated::<T>(ch[0], d)?;
            let (b, ba) = build_annotated::<T>(ch[1], d)?;
            if k.ends_with("Small") && !(small_ok(&a) && small_ok(&b)) {
                return Err(BuildErr::Skip("inner scratch needs exceed what the *Small algorithms accept".into()));
            }
            let f = match k {
                "MixedRadix" => guarded(k, || Arc::new(MixedRadix::new(a, b))),
                "MixedRadixSmall" => guarded(k, || Arc::new(MixedRadixSmall::new(a, b))),
                "GoodThomasAlgorithm" => guarded(k, || Arc::new(GoodThomasAlgorithm::new(a, b))),
                _ => guarded(k, || Arc::new(GoodThomasAlgorithmSmall::new(a, b))),
            }?;
            let an = annotate(k, &f, vec![aa, ba]);
            Ok((f, an))
        }
        "RadersAlgorithm" => {
            let (a, aa) = build_annotated::<T>(ch[0], d)?;
            let f = guarded(k, || Arc::new(RadersAlgorithm::new(a)))?;
            let an = annotate(k, &f, vec![aa]);
            Ok((f, an))
        }
        "BluesteinsAlgorithm" => {
            let (a, aa) = build_annotated::<T>(ch[0], d)?;
            let f = guarded(k, || Arc::new(BluesteinsAlgorithm::new(len as usize, a)))?;
            let an = annotate(k, &f, vec![aa]);
            Ok((f, an))
        }
        "Radix4Base" => {
            let (a, aa) = build_annotated::<T>(ch[0], d)?;
            let f = guarded(k, || Arc::new(Radix4::new_with_base(kk, a)))?;
            let an = annotate("Radix4", &f, vec![aa]);
            Ok((f, an))
        }
        "Radix3Base" => {
            let (a, aa) = build_annotated::<T>(ch[0], d)?;
            let f = guarded(k, || Arc::new(Radix3::new_with_base(kk, a)))?;
            let an = annotate("Radix3", &f, vec![aa]);
            Ok((f, an))
        }
        other => Err(BuildErr::Skip(format!("unknown node kind {}", other))),
    }
}

pub fn tree_len(t: &Value) -> u64 {
    let k = t["k"].as_str().unwrap_or("");
    let ch: Vec<&Value> = t["ch"].as_array().map(|a| a.iter().collect()).unwrap_or_default();
    match k {
        "Dft" | "Butterfly" | "Radix4" | "Radix3" | "Planned" | "BluesteinsAlgorithm" => t["len"].as_u64().unwrap_or(0),
        "RadersAlgorithm" => tree_len(ch[0]) + 1,
        "Radix4Base" => tree_len(ch[0]) * 4u64.pow(t["kk"].as_u64().unwrap_or(0) as u32),
        "Radix3Base" => tree_len(ch[0]) * 3u64.pow(t["kk"].as_u64().unwrap_or(0) as u32),
        _ => tree_len(ch[0]) * tree_len(ch[1]),
    }
}

pub fn tree_desc(t: &Value) -> String {
    let k = t["k"].as_str().unwrap_or("?");
    let ch: Vec<String> = t["ch"].as_array().map(|a| a.iter().map(tree_desc).collect()).unwrap_or_default();
    match k {
        "Dft" | "Butterfly" | "Radix4" | "Radix3" => format!("{}{}", k, t["len"]),
        "Planned" => format!("Planned[{}]{}", t["pl"].as_str().unwrap_or(""), t["len"]),
        "BluesteinsAlgorithm" => format!("Bluestein{}({})", t["len"], ch.join(",")),
        "Radix4Base" | "Radix3Base" => format!("{}^{}({})", k, t["kk"], ch.join(",")),
        _ => format!("{}({})", k, ch.join(",")),
    }
}

// ------------------------------------------------------------------------------------------------
fn real_checks<T: Real + Elem>(ctx: &mut Ctx, pl: &Planned<T>, salt: usize) {
    let n = pl.n;
    let z = Complex::<T>::zero();
    let guard = Some(if salt % 2 == 0 { Align::End } else { Align::Start });
    // C01: dense vector against the reference, impulses by phase
    let x: Vec<Complex<T>> = gen_input("uniform", n, 0, &mut ctx.rng);
    let reference = refdft::fft(&to_cdd(&x), pl.dir == FftDirection::Inverse);
    let mut zero_run: Vec<(Entry, Vec<Complex<T>>)> = Vec::new();
    for e in ALL_ENTRIES {
        let scratch = vec![z; pl.adv[e.scratch_index()]];
        let out = vec![z; if e.two_buffers() { n } else { 0 }];
        let rf = &reference;
        let r = ctx.call(pl, e, &x, &out, &scratch, guard, json!({"family": "uniform"}), |r| {
            if r.panic.is_some() {
                return vec![];
            }
            vec![json!({"kind": "err", "ref": "dft", "err_q": err_q(&r.result, rf)})]
        });
        if r.panic.is_none() {
            zero_run.push((e, r.result));
        }
    }
    if n <= 64 {
        for j in [0, 1 % n, n - 1] {
            let xi: Vec<Complex<T>> = gen_input("impulse", n, j, &mut ctx.rng);
            let e = ALL_ENTRIES[(j + salt) % 4];
            let scratch = vec![z; pl.adv[e.scratch_index()]];
            let out = vec![z; if e.two_buffers() { n } else { 0 }];
            ctx.call(pl, e, &xi, &out, &scratch, guard, json!({"family": "impulse", "j": j}), |r| {
                if r.panic.is_some() {
                    return vec![];
                }
                let (ph, ok) = phase_digest(&r.result);
                vec![json!({"kind": "phase", "j": j, "phase": ph, "mag_ok": ok})]
            });
        }
    }
    // C08: NaN-filled exact scratch and output must give the bits of the zero-filled run
    for (e, r0) in zero_run.iter() {
        if *e == Entry::Process {
            continue;
        }
        let nan = Complex { re: T::of_f64(f64::NAN), im: T::of_f64(f64::NAN) };
        let scratch = vec![nan; pl.adv[e.scratch_index()]];
        let out = vec![nan; if e.two_buffers() { n } else { 0 }];
        ctx.call(pl, *e, &x, &out, &scratch, guard, json!({"scratch_init": "nan", "out_init": "nan"}), |r| {
            if r.panic.is_some() {
                return vec![];
            }
            vec![json!({"kind": "bits", "equal": bits_equal(&r.result, r0), "finite": all_finite(&r.result)})]
        });
    }
    // C07: three chunks, and isolation of one clean chunk among NaN neighbours
    let e = SCRATCH_ENTRIES[salt % 3];
    let x3: Vec<Complex<T>> = gen_input("uniform", 3 * n, 0, &mut ctx.rng);
    let singles: Vec<Vec<Complex<T>>> = x3
        .chunks(n)
        .map(|c| {
            let mut b = c.to_vec();
            let mut s = vec![z; pl.adv[0]];
            let f = pl.fft.clone();
            let _ = crate::calls::lib_catch((|| f.process_with_scratch(&mut b, &mut s)));
            b
        })
        .collect();
    let scratch = vec![z; pl.adv[e.scratch_index()]];
    let out = vec![z; if e.two_buffers() { 3 * n } else { 0 }];
    ctx.call(pl, e, &x3, &out, &scratch, guard, json!({"k": 3}), |r| {
        if r.panic.is_some() {
            return vec![];
        }
        let worst = r.result.chunks(n).zip(&singles).map(|(c, s)| err_q(c, &to_cdd(s))).max().unwrap_or(0);
        vec![json!({"kind": "err", "ref": "single", "err_q": worst})]
    });
    let clean = salt % 3;
    let mut xn = vec![Complex { re: T::of_f64(f64::NAN), im: T::of_f64(f64::NAN) }; 3 * n];
    xn[clean * n..(clean + 1) * n].copy_from_slice(&x3[clean * n..(clean + 1) * n]);
    ctx.call(pl, e, &xn, &out, &scratch, guard, json!({"k": 3, "clean": clean + 1}), |r| {
        if r.panic.is_some() {
            return vec![];
        }
        let finite: Vec<bool> = r
            .result
            .chunks(n)
            .enumerate()
            .map(|(c, ch)| if c == clean { all_finite(ch) } else { any_finite(ch) })
            .collect();
        vec![
            json!({"kind": "isolation", "finite": finite, "clean": clean + 1}),
            json!({"kind": "err", "ref": "single", "err_q": err_q(&r.result[clean * n..(clean + 1) * n], &to_cdd(&singles[clean]))}),
        ]
    });
    // C09 / C03: a rotating third of the shape classes per entry point
    for (ei, e) in ALL_ENTRIES.iter().copied().enumerate() {
        let adv = pl.adv[e.scratch_index()];
        for (ci, (sh, cname)) in shape_classes(n, adv, e.two_buffers(), e != Entry::Process, salt + ei).iter().enumerate() {
            // long transforms (the number-theoretic and large-length sweeps): one shape class in nine
            if e == Entry::Process && sh.scratch != adv || (ci + salt + ei) % 3 != 0 || (n > 1024 && (ci + salt) % 3 != 0) {
                continue;
            }
            let xs: Vec<Complex<T>> = gen_input("uniform", sh.data, 0, &mut ctx.rng);
            let out = vec![z; sh.out];
            let scratch = vec![z; if e == Entry::Process { 0 } else { sh.scratch }];
            let fft = pl.fft.clone();
            let adv0 = pl.adv[0];
            let xin = xs.clone();
            ctx.call(pl, e, &xs, &out, &scratch, guard, json!({"class": cname}), move |r| {
                if r.panic.is_some() || xin.is_empty() {
                    return vec![];
                }
                let mut by_chunk = Vec::new();
                for (c, res) in xin.chunks(n).zip(r.result.chunks(n)) {
                    if c.len() < n {
                        by_chunk.push(false);
                        continue;
                    }
                    let mut b = c.to_vec();
                    let mut s = vec![Complex::<T>::zero(); adv0];
                    let ok = crate::calls::lib_catch((|| fft.process_with_scratch(&mut b, &mut s))).is_ok();
                    by_chunk.push(ok && err_q(res, &to_cdd(&b)) < (1 << 22));
                }
                if r.result.len() != xin.len() {
                    by_chunk.push(false);
                }
                vec![json!({"kind": "transformed", "by_chunk": by_chunk})]
            });
        }
    }
}

fn real_tree<T: Real + Elem>(ctx: &mut Ctx, t: &Value, desc: &str, salt: usize) {
    let n = tree_len(t) as usize;
    for d in DIRS {
        let (built, ann) = match build_annotated::<T>(t, d) {
            Ok((f, a)) => (Ok(f), a),
            Err(BuildErr::Skip(why)) => {
                ctx.tr.emit("Note", json!({"what": "ctor-skip", "elem": T::ELEM, "why": why}));
                return;
            }
            Err(BuildErr::Panic(m)) => (Err(m), json!([])),
        };
        ctx.case(format!("{} {} {}", T::ELEM, desc, dir_name(d)), true);
        ctx.construct_tree = Some(ann);
        if let Some(pl) = ctx.construct::<T>(n, d, desc, built) {
            real_checks(ctx, &pl, salt + if d == DIRS[0] { 0 } else { 1 });
        }
    }
}

fn fp_tree(ctx: &mut Ctx, t: &Value, desc: &str, salt: usize) {
    let n = tree_len(t) as usize;
    for d in DIRS {
        // pass 1
        let (r1, recorded) = record(|| build_tree::<Fp>(t, d).map(|_| ()));
        match r1 {
            Err(BuildErr::Skip(why)) => {
                ctx.tr.emit("Note", json!({"what": "ctor-skip", "elem": "fp", "why": why}));
                return;
            }
            Err(BuildErr::Panic(m)) => {
                ctx.construct::<Fp>(n, d, desc, Err(m));
                continue;
            }
            Ok(()) => {}
        }
        let field = match Field::build(&recorded, 64 * n as u64 + 4096, &[n as u64], false) {
            Ok(f) => f,
            Err(_) => {
                ctx.tr.emit("Note", json!({"what": "exact-skip", "n": n, "desc": desc}));
                continue;
            }
        };
        let p = field.p;
        let ((), misses) = with_exact(&field, || {
            let built = match build_tree::<Fp>(t, d) {
                Ok(f) => Ok(f),
                Err(BuildErr::Skip(_)) => return,
                Err(BuildErr::Panic(m)) => Err(m),
            };
            ctx.case(format!("fp {} {}", desc, dir_name(d)), true);
            let pl = match ctx.construct::<Fp>(n, d, desc, built) {
                Some(pl) => pl,
                None => return,
            };
            let roots = field.roots(n as u64, d == FftDirection::Inverse);
            for (ii, k) in [1usize, 3, 2].into_iter().enumerate() {
                let e = ALL_ENTRIES[(ii + salt) % 4];
                let x: Vec<Complex<Fp>> = (0..n * k).map(|_| Complex { re: Fp(ctx.rng.below(p)), im: Fp(ctx.rng.below(p)) }).collect();
                let scratch: Vec<Complex<Fp>> = (0..pl.adv[e.scratch_index()]).map(|_| Complex { re: Fp(ctx.rng.below(p)), im: Fp(ctx.rng.below(p)) }).collect();
                let out: Vec<Complex<Fp>> = (0..if e.two_buffers() { n * k } else { 0 }).map(|_| Complex { re: Fp(ctx.rng.below(p)), im: Fp(ctx.rng.below(p)) }).collect();
                let xin = x.clone();
                let (fld, rts) = (&field, &roots);
                ctx.call(&pl, e, &x, &out, &scratch, None, json!({"k": k, "p": p.to_string()}), move |r| {
                    if r.panic.is_some() {
                        return vec![];
                    }
                    let mut ok = r.result.len() == xin.len();
                    if ok {
                        'outer: for (ci, (cin, cout)) in xin.chunks(n).zip(r.result.chunks(n)).enumerate() {
                            if n <= 2048 {
                                for kk in 0..n {
                                    if fld.dft_at(cin, kk, rts) != cout[kk] {
                                        ok = false;
                                        break 'outer;
                                    }
                                }
                            } else {
                                // long transforms: 24 output bins evaluated directly, and 24 points of the INVERSE transform of the
                                // output (sum_k X[k] w^(-km) = n x[m]): one wrong output bin changes every such point, so a
                                // discrepancy anywhere in the output is seen; O(n) field operations per point
                                let mut lr = crate::util::Rng::new(0xE5AC7 ^ (n as u64) ^ ((ci as u64) << 40));
                                let nn = Complex { re: Fp((n as u64) % fld.p), im: Fp(0) };
                                for t in 0..24usize {
                                    let kk = if t < 3 { [0, 1, n - 1][t] } else { lr.below(n as u64) as usize };
                                    if fld.dft_at(cin, kk, rts) != cout[kk] {
                                        ok = false;
                                        break 'outer;
                                    }
                                    let m = if t < 3 { [0, n - 1, n / 2][t] } else { lr.below(n as u64) as usize };
                                    // w^(-km) = roots[(n - m) * k mod n] = dft_at with frequency index n - m
                                    if fld.dft_at(cout, (n - m) % n, rts) != nn * cin[m] {
                                        ok = false;
                                        break 'outer;
                                    }
                                }
                            }
                        }
                    }
                    vec![json!({"kind": "exact", "match": ok})]
                });
            }
        });
        if misses > 0 {
            ctx.tr.emit("Note", json!({"what": "exact-misses", "n": n, "misses": misses}));
        }
    }
}

pub fn run_c12(ctx: &mut Ctx, scenarios: &str) {
    let txt = std::fs::read_to_string(scenarios).unwrap_or_else(|e| {
        eprintln!("cannot read scenarios {}: {}", scenarios, e);
        std::process::exit(2);
    });
    ctx.flush_calls = true;
    let mut idx = 0usize;
    for line in txt.lines() {
        let t: Value = match serde_json::from_str(line) {
            Ok(v) => v,
            Err(_) => continue,
        };
        let desc = tree_desc(&t);
        for elem in ["fp", "f64", "f32"] {
            let i = idx;
            idx += 1;
            let label = format!("ctor {} {}", elem, desc);
            if !ctx.scenario(i, &label) {
                continue;
            }
            // quick tier: a long tree (> 1024 points) is instantiated exactly (fp) and in ONE floating-point type, alternating
            if ctx.quick() && tree_len(&t) > 1024 && ((elem == "f64" && i % 2 == 0) || (elem == "f32" && i % 2 == 1)) {
                continue;
            }
            match elem {
                "fp" => fp_tree(ctx, &t, &desc, i),
                "f64" => real_tree::<f64>(ctx, &t, &desc, i),
                _ => real_tree::<f32>(ctx, &t, &desc, i),
            }
        }
    }
}

/// C15 for client-assembled transforms: "for every transform" includes the ones built with the public constructors.  The
/// TLC-generated constructor trees (those of moderate length) are built for f32 / f64 alternately and called through the
/// immutable-input entry point only - well- and ill-shaped, input in read-only pages - and the input bits are compared.
fn immut_tree<T: Real + Elem>(ctx: &mut Ctx, t: &Value, desc: &str, salt: usize) {
    let n = tree_len(t) as usize;
    for d in DIRS {
        let built = match build_tree::<T>(t, d) {
            Ok(f) => Ok(f),
            Err(BuildErr::Skip(_)) => return,
            Err(BuildErr::Panic(m)) => Err(m),
        };
        ctx.case(format!("immut-ctor {} {} {}", T::ELEM, desc, dir_name(d)), true);
        let pl = match ctx.construct::<T>(n, d, desc, built) {
            Some(pl) => pl,
            None => continue,
        };
        let adv = pl.adv[2];
        let mut shapes: Vec<(usize, usize, usize, &str)> = vec![(n, n, adv, "well"), (3 * n, 3 * n, adv + 1, "well"), (2 * n + 1, 2 * n + 1, adv, "ill-data"), (2 * n, 2 * n + 1, adv, "ill-out")];
        if adv > 0 {
            shapes.push((2 * n, 2 * n, adv - 1, "ill-scratch"));
        }
        let z = Complex::<T>::zero();
        for (si, (dl, ol, sl, class)) in shapes.into_iter().enumerate() {
            let x: Vec<Complex<T>> = gen_input("uniform", dl, 0, &mut ctx.rng);
            let out = vec![z; ol];
            let scratch = vec![Complex { re: T::of_f64(f64::NAN), im: T::of_f64(f64::NAN) }; sl];
            let before = x.clone();
            let align = if (salt + si) % 2 == 0 { Align::End } else { Align::Start };
            ctx.call(&pl, Entry::Immut, &x, &out, &scratch, Some(align), json!({"class": class}), move |r| {
                vec![json!({"kind": "unchanged", "unchanged": bits_equal(&r.input_after, &before)})]
            });
        }
    }
}

pub fn run_c15_trees(ctx: &mut Ctx, scenarios: &str, item0: usize) {
    if scenarios.is_empty() {
        return;
    }
    let txt = match std::fs::read_to_string(scenarios) {
        Ok(t) => t,
        Err(_) => return,
    };
    ctx.flush_calls = true;
    let mut idx = item0;
    for (li, line) in txt.lines().enumerate() {
        let t: Value = match serde_json::from_str(line) {
            Ok(v) => v,
            Err(_) => continue,
        };
        if tree_len(&t) > 2100 || (ctx.quick() && li % 2 == 1) {
            continue;
        }
        let desc = tree_desc(&t);
        let i = idx;
        idx += 1;
        let elem = if li % 4 < 2 { "f32" } else { "f64" };
        if !ctx.scenario(i, &format!("immut-ctor {} {}", elem, desc)) {
            continue;
        }
        if elem == "f32" {
            immut_tree::<f32>(ctx, &t, &desc, i);
        } else {
            immut_tree::<f64>(ctx, &t, &desc, i);
        }
    }
}

#[allow(dead_code)]
fn _u<T: FftNum>(_: [u32; 2]) -> [u32; 2] {
    hash2::<T>(&[])
}
#[allow(dead_code)]
fn _v<T: Real>(f: &dyn Fft<T>) {
    let _ = run_call(f, Entry::Process, &[], &[], &[], None);
}
