"""Per-property configuration of bin/check."""

MC_LAYER = {"module": "MC_RustFFT.tla", "cfg": "MC_RustFFT.cfg", "cfg_quick": "MC_RustFFT_quick.cfg", "timeout": 3600}

MC_CALL = {"module": "MC_CallProtocol.tla", "cfg": "MC_CallProtocol.cfg", "timeout": 600}
MC_PLAN = {"module": "MC_Planners.tla", "cfg": "MC_Planners.cfg", "cfg_quick": "MC_Planners_quick.cfg", "timeout": 3000, "xss": "1g"}

MC_SCR = {"module": "MC_Scratch.tla", "cfg": "MC_Scratch.cfg", "cfg_quick": "MC_Scratch_quick.cfg", "args": ["-maxSetSize", "30000000"], "timeout": 1200}
MC_EXEC = {"module": "MC_Exec.tla", "cfg": "MC_Exec.cfg", "cfg_quick": "MC_Exec_quick.cfg", "timeout": 2400, "xss": "1g"}
MC_DF = {"module": "MC_Dataflow.tla", "cfg": "MC_Dataflow.cfg", "timeout": 900}
# planned trees executed by the algorithm models over GF(P)[i]: a few lengths in quick, every n = 2..64 in thorough
MC_EXECPLAN = [{"module": "MC_ExecPlan.tla", "cfg": "execplan/MC_ExecPlan_%d.cfg" % n, "xss": "1g", "timeout": 1800,
                "thorough_only": n not in (12, 30, 37, 45)} for n in range(2, 65)]
# the AVX kernels at vector-register granularity (Exec.tla): stage universe, and the plans of the faithful AVX planner model
MC_EXECAVX = [{"module": "MC_ExecAvx.tla", "cfg": "MC_ExecAvx.cfg", "cfg_quick": "MC_ExecAvx_st.cfg", "xss": "1g", "timeout": 3000},
              {"module": "MC_ExecAvx.tla", "cfg": "MC_ExecAvx_b.cfg", "xss": "1g", "timeout": 3000, "thorough_only": True},
              {"module": "MC_ExecAvx.tla", "cfg": "MC_ExecAvx_c.cfg", "xss": "1g", "timeout": 3000, "thorough_only": True}]
import os as _os
_AVXN = sorted(int(f.split("_")[-1].split(".")[0]) for f in _os.listdir(_os.path.join(_os.path.dirname(_os.path.abspath(__file__)), "..", "spec", "execplan_avx")))
MC_EXECPLANAVX = [{"module": "MC_ExecPlanAvx.tla", "cfg": "execplan_avx/MC_ExecPlanAvx_%d.cfg" % n, "xss": "1g", "timeout": 2400,
                   "thorough_only": n not in (22, 39, 74)} for n in _AVXN if n >= 10 and n <= 128]
MC_THRENV = {"module": "ThreadEnv.tla", "cfg": "MC_ThreadEnv.cfg", "timeout": 600}
MC_PCACHE = {"module": "PlannerCache.tla", "cfg": "MC_PlannerCache.cfg", "timeout": 900, "xss": "256m"}
MC_MULREM = {"module": "MulRem.tla", "cfg": "MulRem.cfg", "cfg_quick": "MulRem_quick.cfg", "timeout": 900, "xss": "256m"}
MC_THR = {"module": "Threads.tla", "cfg": "MC_Threads3.cfg", "timeout": 600}

APA_LOOP = [{"module": "CallLoop.tla", "init": "Init", "inv": "IndInv", "length": 0},
            {"module": "CallLoop.tla", "init": "IndInit", "inv": "IndInv", "length": 1},
            {"module": "CallLoop.tla", "init": "IndInit", "inv": "ExitOk", "length": 0}]
APA_SCR = [{"module": "ScratchLemmas.tla", "init": "Any", "inv": "AllSuffice", "length": 0},
           {"module": "ScratchLemmas.tla", "init": "Any", "inv": "LinearGrowth", "length": 0}]

APA_MULREM = [{"module": "MulRemLemma.tla", "init": "Init", "inv": "Lemma", "length": 0}]

NT_PLAN = "a case is non-trivial when n >= 2 (the plan is not the trivial length-0/1 transform); distinct tuples are counted by the harness"

PROPS = {
    "C01": {
        "apalache": APA_MULREM, "driver": "c01", "level": "model_checking", "mc": [MC_LAYER, MC_EXEC, MC_MULREM] + MC_EXECAVX + MC_EXECPLAN + MC_EXECPLANAVX,
        "rule": "every (planner kind, f32/f64, n, direction) for n = 1..N plus structured lengths is planned on the real library; each is called "
                "through all four entry points on a dense vector (error against the double-double reference DFT, judged by TLC against Tol) and on unit "
                "impulses (whole basis for small n; TLC checks the integer phase identity phase[k] = -+j*k mod n); " + NT_PLAN,
    },
    "C02": {
        "driver": "c02", "level": "exploration",
        "rule": "every (planner kind, f32/f64, n, direction), eight input families each, relative L2 error against the double-double reference; "
                "TLC evaluates err <= 16 eps log2(2n) (fixed-point log rounded up) on every completed call; " + NT_PLAN,
    },
    "C03": {
        "apalache": APA_SCR + APA_MULREM, "driver": "c03", "mc": [MC_SCR, MC_CALL, MC_MULREM], "level": "exploration",
        "rule": "every (planner kind, f32/f64, n, direction, entry point, chunk count, alignment) call runs with each caller buffer flush against a PROT_NONE "
                "page (end- and start-aligned), immutable inputs read-only, scratch exactly as advertised, plus the ill-shaped classes; any fault/abort is a Crash "
                "event for which the specification has no transition; every case counts as non-trivial (each is a distinct memory layout)",
        "variants": [{"name": "default"}, {"name": "relcheck", "profile": "relcheck"},
                     {"name": "dev", "profile": "dev", "run_env": {"RFV_LIGHT": "1"}},
                     {"name": "asan", "toolchain": "nightly", "target": "x86_64-unknown-linux-gnu", "target_dir": "target-asan",
                      "env": {"RUSTFLAGS": "-Zsanitizer=address --cfg rustfft_verif --check-cfg cfg(rustfft_verif)"},
                      "run_env": {"ASAN_OPTIONS": "abort_on_error=1:detect_leaks=0"}, "args": ["--no-guard"], "thorough_only": True}],
    },
    "C04": {
        "driver": "c04", "level": "model_checking", "mc": [MC_LAYER, MC_PLAN],
        "rule": "built sweep: every (planner kind, element type, n, direction) planned and constructed on the real library, "
                "n=0..N plus structured lengths; plan-only sweep: every (planner, n) plan report; " + NT_PLAN,
    },
    "C05": {
        "driver": "c05", "level": "model_checking", "mc": [MC_LAYER, MC_PLAN],
        "rule": "advertised scratch of every built (planner, elem, n, dir); plan reports of every (planner, n) for the no-naive-node clause; "
                "operation counts of the portable planner through a counting element type for every n (two inputs each); " + NT_PLAN,
    },
    "C06": {
        "driver": "c06", "level": "model_checking", "mc": [MC_LAYER, MC_EXEC, MC_PCACHE] + MC_EXECAVX,
        "rule": "every (planner kind, f32/f64, n): both directions planned on one planner in either order, forward-then-inverse and inverse-then-forward "
                "round trips against n*x, and inverse(x) against conj(forward(conj x)); " + NT_PLAN,
    },
    "C07": {
        "apalache": APA_LOOP, "driver": "c07", "level": "model_checking", "mc": [MC_LAYER, MC_CALL, MC_DF],
        "rule": "every (planner kind, f32/f64, n, entry point, k): k-chunk call compared chunk by chunk with the single-chunk result; NaN-poisoned neighbours "
                "(isolation); non-trivial when k >= 2",
    },
    "C08": {
        "apalache": APA_SCR, "driver": "c08", "level": "model_checking", "mc": [MC_LAYER, MC_SCR, MC_DF],
        "rule": "every (planner kind, f32/f64, n, entry point): reference run with zeroed exact scratch, then runs varying scratch length {adv,+1,+17,x2} and "
                "initial scratch/output contents {0,NaN,+Inf,-Inf,huge}; output bits compared (hash equality decided by TLC); non-trivial when the variant "
                "differs from the reference run",
    },
    "C09": {
        "apalache": APA_LOOP, "tlaps": ["ShapeLemmas.tla"], "driver": "c09", "level": "model_checking", "mc": [MC_LAYER, MC_CALL],
        "rule": "every (planner kind, f32/f64, n, entry point, shape class): data in {n,kn,1,n-1,n+1,2n-1,2n+1,kn-1,kn+1,0}, output off by 1/n, scratch in "
                "{0,adv-1,adv,adv+1}; the verdict Well/Ill is computed by TLC from the logged lengths; every case is non-trivial",
    },
    "C10": {
        "gen": [{"module": "MC_Histories.tla", "cfg": "MC_Histories_f32.cfg", "timeout": 900},
                {"module": "MC_Histories.tla", "cfg": "MC_Histories_f64.cfg", "timeout": 900}],
        "driver": "c10", "level": "model_checking", "mc": [MC_LAYER, MC_PLAN, MC_PCACHE],
        "rule": "request histories over five pools of related (length, direction) pairs: all sequences of length 1 and 2, a seeded sample of length 3, random "
                "sequences of length 4..12; each replayed on two planner objects of every kind x f32/f64; every returned transform checked against the reference DFT "
                "(log bound), round-tripped with earlier opposite-direction transforms, re-used after the planners are dropped; twin outputs bit-identical "
                "(hash equality decided by TLC); non-trivial = distinct history prefixes of length >= 2",
    },
    "C11": {
        "gen": {"module": "Threads.tla", "cfg": "MC_Threads.cfg", "timeout": 300},
        "driver": "c11", "level": "model_checking", "mc": [MC_LAYER, MC_THR, MC_THRENV],
        "rule": "shared instances of every planner kind x f32/f64 over 14 lengths covering every wrapper algorithm: forced two-thread schedules through the "
                "chunk-boundary hook (context-bounded, <= 2 preemptions) and 16 free-running threads x R rounds with mixed entry points and chunk counts; every "
                "concurrent output hash must equal the sequential reference recorded in the same trace (decided by TLC); every case is non-trivial",
    },
    "C12": {
        "driver": "c12", "mc": [MC_SCR, MC_EXEC], "level": "model_checking",
        "gen": {"module": "MC_Ctor.tla", "cfg": "MC_Ctor.cfg", "cfg_quick": "MC_Ctor_quick.cfg", "args": ["-maxSetSize", "20000000"], "timeout": 2400},
        "rule": "expression trees of depth <= 2 over the public constructors (Dft, Butterfly1..32, Radix4/Radix3 new and new_with_base, MixedRadix(Small), "
                "GoodThomasAlgorithm(Small), RadersAlgorithm, BluesteinsAlgorithm, planner-produced leaves) enumerated by TLC from MC_Ctor.tla under the "
                "arithmetic preconditions; each built in both directions for GF(p) (exact DFT), f64 and f32 (guard pages) and put through the C01/C07/C08/C09 "
                "observations; every tree is non-trivial (at least one wrapper node)",
        "variants": [{"name": "default"}, {"name": "relcheck", "profile": "relcheck", "thorough_only": True}],
    },
    "C13": {
        "driver": "c13", "level": "model_checking", "mc": [MC_LAYER] + [m for m in MC_EXECPLANAVX if not m.get("thorough_only")],
        "rule": "harness builds per cargo feature set x run-time capability masks (H1): NewPlanner events for every planner kind x {f32,f64,custom} judged by the "
                "Dispatch predicates; under each configuration all n = 0..N plus structured lengths are planned (C04), run with guard pages (C03) against the "
                "reference DFT with the log bound (C01/C02) and impulse phases; " + NT_PLAN,
        "variants": [
            {"name": "default", "masks": [15, 7, 1, 0]},
            {"name": "none", "features": [], "masks": [15, 0], "masks_quick": [15]},
            {"name": "sse", "features": ["sse"], "masks": [15, 1, 0], "thorough_only": True},
            {"name": "avx", "features": ["avx"], "masks": [15, 7, 1], "thorough_only": True},
        ],
    },
    "C14": {
        "driver": "c14", "level": "model_checking", "mc": [MC_LAYER],
        "rule": "element types: GF(p) (exact; two-pass constant identification; TLC recomputes the DFT itself for n <= 40 in a field p < 2^20), double-double, "
                "counting, 24-byte wide; SIMD planners must decline each, the automatic planner must construct; every (type, n, direction); " + NT_PLAN,
    },
    "C15": {
        "gen": {"module": "MC_Ctor.tla", "cfg": "MC_Ctor_quick.cfg", "args": ["-maxSetSize", "20000000"], "timeout": 1200},
        "variants": [{"name": "default"}, {"name": "dev", "profile": "dev", "run_env": {"RFV_LIGHT": "1"}}],
        "driver": "c15", "level": "model_checking", "mc": [MC_LAYER, MC_CALL, MC_DF],
        "rule": "every (planner kind, f32/f64, n): immutable-input calls with k in 1..8 and ill-shaped classes; the same calls on the TLC-generated constructor trees of moderate length; input bits before/after and read-only input pages; "
                "every case is non-trivial",
    },
}
