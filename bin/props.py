"""Per-property configuration of bin/check."""

MC_LAYER = {"module": "MC_RustFFT.tla", "cfg": "MC_RustFFT.cfg", "cfg_quick": "MC_RustFFT_quick.cfg", "timeout": 900}

PROPS = {
    "C04": {
        "driver": "c04",
        "level": "model_checking",
        "rule": "built sweep: every (planner kind, element type, n, direction) planned and constructed on the real library, "
                "n=0..N plus structured lengths; plan-only sweep: every (planner, n) plan report; a case is non-trivial when n >= 2 "
                "(the plan is not the trivial length-0/1 transform); distinct tuples are counted by the harness",
        "mc": [MC_LAYER],
    },
    "C05": {
        "driver": "c05",
        "level": "model_checking",
        "rule": "advertised scratch of every built (planner, elem, n, dir); plan reports of every (planner, n) for the no-naive-node clause; "
                "operation counts of the portable planner through a counting element type for every n (two inputs each); "
                "non-trivial when n >= 2",
        "mc": [MC_LAYER],
    },
}
