#!/usr/bin/env python3
"""Rewrites the seeded-change table of DESIGN.md (between the SEEDTABLE markers) from seeded/*/meta.json and seeded/results.ndjson."""
import glob, json, os, re
V = os.path.dirname(os.path.dirname(os.path.abspath(__file__)))
res = {}
p = os.path.join(V, "seeded", "results.ndjson")
if os.path.exists(p):
    for ln in open(p):
        r = json.loads(ln)
        res.setdefault(r["seed"], {})[r["check"]] = r          # the latest run of a (seed, check) pair wins
rows = ["| seed | property | change (one line) | needs, to manifest | checks run -> result |", "|---|---|---|---|---|"]
for d in sorted(glob.glob(os.path.join(V, "seeded", "*", "meta.json"))):
    sid = os.path.basename(os.path.dirname(d))
    m = json.load(open(d))
    def short(x, n):
        x = re.sub(r"\s+", " ", str(x)).replace("|", "/")
        return x if len(x) <= n else x[: n - 3] + "..."
    outcome = "; ".join("%s: %s" % (c, "caught (%d violations)" % r["violations"] if r["rc"] == 1 else ("MISSED" if r["rc"] == 0 else "tool error"))
                        for c, r in sorted(res.get(sid, {}).items())) or "not run yet"
    rows.append("| %s | %s | %s | %s | %s |" % (sid, m.get("property", sid[:3]), short(m.get("summary", ""), 160), short(m.get("manifests_when", ""), 200), outcome))
table = "\n".join(rows)
dp = os.path.join(V, "DESIGN.md")
s = open(dp).read()
if "<!-- SEEDTABLE-BEGIN -->" in s:
    s = re.sub(r"<!-- SEEDTABLE-BEGIN -->.*<!-- SEEDTABLE-END -->", "<!-- SEEDTABLE-BEGIN -->\n" + table + "\n<!-- SEEDTABLE-END -->", s, flags=re.S)
else:
    s = s.replace("SEEDTABLE", "<!-- SEEDTABLE-BEGIN -->\n" + table + "\n<!-- SEEDTABLE-END -->", 1)
open(dp, "w").write(s)
print(table)
