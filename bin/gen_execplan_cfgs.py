#!/usr/bin/env python3
"""Generates spec/execplan/MC_ExecPlan_<n>.cfg: for each length n the field constants (P, BigN, G) under which
MC_ExecPlan.tla executes the planned tree exactly.  Input: lines <<"LENS", n, {lens}>> printed by TLC from the
faithful planner models (every node length of the scalar and SSE plans of n, doubled for Bluestein nodes).
TLC re-verifies the constants (ASSUME in MC_ExecPlan.tla), so this script is not part of the trusted base."""
import math, re, sys, os
def isprime(n):
    if n < 2: return False
    i = 2
    while i * i <= n:
        if n % i == 0: return False
        i += 1
    return True
def pfactors(n):
    f = set(); d = 2
    while d * d <= n:
        while n % d == 0: f.add(d); n //= d
        d += 1
    if n > 1: f.add(n)
    return f
out = os.path.join(os.path.dirname(os.path.dirname(os.path.abspath(__file__))), "spec", "execplan")
os.makedirs(out, exist_ok=True)
def lens_lines():
    """ask TLC (faithful planner models) for the node lengths of the scalar and SSE plans of n = 2..64"""
    import subprocess, tempfile, shutil
    spec = os.path.join(os.path.dirname(out))
    d = tempfile.mkdtemp()
    for f in os.listdir(spec):
        if f.endswith(".tla"): shutil.copy(os.path.join(spec, f), d)
    open(os.path.join(d, "PlanLens.tla"), "w").write("""---- MODULE PlanLens ----
EXTENDS PlannerSse, TLC
Dens(t) == {NodeLen(t, i) : i \\in DOMAIN t} \\cup {2 * NodeLen(t, i) : i \\in {j \\in DOMAIN t : t[j].k = "BluesteinsAlgorithm"}}
ASSUME \\A n \\in 2..64 : PrintT(<<"LENS", n, Dens(ScalarPlan(n)) \\cup Dens(SsePlan(n))>>)
====
""")
    open(os.path.join(d, "PlanLens.cfg"), "w").write("")
    r = subprocess.run(["tlc", "-config", "PlanLens.cfg", "PlanLens.tla"], cwd=d, stdout=subprocess.PIPE, stderr=subprocess.STDOUT, text=True)
    shutil.rmtree(d, ignore_errors=True)
    return [l for l in r.stdout.splitlines() if l.startswith('<<"LENS"')]
def lens_lines_avx(nmax):
    """node lengths of the AVX planner model's plans (f32/f64, with/without AVX2) of n = 2..nmax"""
    import subprocess, tempfile, shutil
    spec = os.path.join(os.path.dirname(out))
    d = tempfile.mkdtemp()
    for f in os.listdir(spec):
        if f.endswith(".tla"): shutil.copy(os.path.join(spec, f), d)
    open(os.path.join(d, "PlanLensAvx.tla"), "w").write("""---- MODULE PlanLensAvx ----
EXTENDS PlannerAvx, TLC
Dens(t) == {NodeLen(t, i) : i \\in DOMAIN t} \\cup {2 * NodeLen(t, i) : i \\in {j \\in DOMAIN t : t[j].k = "BluesteinsBase"}}
All(n) == UNION {Dens(AvxPlan(e, a, n)) : e \\in {"f32", "f64"}, a \\in BOOLEAN}
ASSUME \\A n \\in 2..%d : PrintT(<<"LENS", n, All(n)>>)
====
""" % nmax)
    open(os.path.join(d, "PlanLensAvx.cfg"), "w").write("")
    r = subprocess.run(["java", "-Xss1g", "-cp", "/opt/veriftools/tla/tla2tools.jar:/opt/veriftools/tla/CommunityModules-deps.jar", "tlc2.TLC",
                        "-config", "PlanLensAvx.cfg", "PlanLensAvx.tla"], cwd=d, stdout=subprocess.PIPE, stderr=subprocess.STDOUT, text=True)
    shutil.rmtree(d, ignore_errors=True)
    ls = [l for l in r.stdout.splitlines() if l.startswith('<<"LENS"')]
    if not ls: print(r.stdout[-2000:])
    return ls
AVX = len(sys.argv) > 1 and sys.argv[1] == "avx"
if AVX:
    out = out + "_avx"
    os.makedirs(out, exist_ok=True)
made = []
for ln in (lens_lines_avx(int(sys.argv[2]) if len(sys.argv) > 2 else 200) if AVX else open(sys.argv[1]) if len(sys.argv) > 1 else lens_lines()):
    m = re.match(r'<<"LENS", (\d+), \{(.*)\}>>', ln.strip())
    if not m: continue
    n = int(m.group(1)); lens = [int(x) for x in m.group(2).split(",") if x.strip()]
    N = 8
    for l in lens + [n]:
        if l > 0: N = N * l // math.gcd(N, l)
    k = 1
    while not isprime(k * N + 1): k += 1
    p = k * N + 1
    if p >= (1 << 20):
        print("n=%d: no prime below 2^20 for BigN=%d, skipped" % (n, N)); continue
    qs = pfactors(p - 1)
    r = 2
    while not all(pow(r, (p - 1) // q, p) != 1 for q in qs): r += 1
    g = pow(r, (p - 1) // N, p); gi = pow(g, p - 2, p); I = pow(g, N // 4, p)
    c = (g + gi) * pow(2, p - 2, p) % p
    s = (-(g - gi)) * pow(2 * I, p - 2, p) % p
    assert (c * c + s * s) % p == 1
    open(os.path.join(out, ("MC_ExecPlanAvx_%d.cfg" if AVX else "MC_ExecPlan_%d.cfg") % n), "w").write(
        "SPECIFICATION Spec\nCONSTANTS\n  N = %d\n  P = %d\n  BigN = %d\n  GRe = %d\n  GIm = %d\n  G <- GPair\nINVARIANT Inv\nCHECK_DEADLOCK FALSE\n" % (n, p, N, c, s))
    made.append(n)
print("generated", len(made), "configs:", made)
