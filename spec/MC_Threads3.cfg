SPECIFICATION Spec
CONSTANTS
  Thr = {"A", "B", "C"}
  Steps = 5
  LazyTable = FALSE
  SharedWorkspace = FALSE
  Export = FALSE
INVARIANT Inv
VIEW view
CHECK_DEADLOCK FALSE
