SPECIFICATION Spec
CONSTANTS
  Thr = {"A", "B", "C"}
  Steps = 5
  SharedWorkspace = FALSE
  Export = FALSE
INVARIANT Inv
VIEW view
CHECK_DEADLOCK FALSE
