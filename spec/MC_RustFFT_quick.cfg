SPECIFICATION MCSpec
CONSTANTS
  Prop = "ALL"
  MaxPlanners = 1
  MaxInsts = 1
  MaxCalls = 1
  Lens = {0, 3}
  Features = {{}, {"avx", "sse"}}
  Masks = {1, 15}
  MCElems = {"f32", "fp"}
INVARIANT MCInv
CHECK_DEADLOCK FALSE
