------------------------------- MODULE Arith -------------------------------
(***************************************************************************)
(* Integer arithmetic shared by all RustFFT models.  TLC integers are      *)
(* 32-bit: every operator below keeps its intermediates under 2^31 for the *)
(* argument ranges stated next to it.                                      *)
(***************************************************************************)
EXTENDS Naturals, Integers, Sequences, FiniteSets

Max(a, b) == IF a >= b THEN a ELSE b
Min(a, b) == IF a <= b THEN a ELSE b

RECURSIVE Pow(_, _)
Pow(b, e) == IF e = 0 THEN 1 ELSE b * Pow(b, e - 1)

RECURSIVE Gcd(_, _)
Gcd(a, b) == IF b = 0 THEN a ELSE Gcd(b, a % b)

IsPow2(n) == n >= 1 /\ \E e \in 0..30 : Pow(2, e) = n

RECURSIVE TrailingZeros(_)
TrailingZeros(n) == IF n % 2 = 1 THEN 0 ELSE 1 + TrailingZeros(n \div 2)

\* floor(log2 n), n >= 1
RECURSIVE Log2Floor(_)
Log2Floor(n) == IF n < 2 THEN 0 ELSE 1 + Log2Floor(n \div 2)

\* smallest power of two >= n  (usize::next_power_of_two), n >= 1, n <= 2^30
NextPow2(n) == IF IsPow2(n) THEN n ELSE Pow(2, Log2Floor(n) + 1)

\* trial division; n < 2^31
RECURSIVE HasDivisorFrom(_, _)
HasDivisorFrom(n, d) == IF d * d > n THEN FALSE
                        ELSE IF n % d = 0 THEN TRUE
                        ELSE HasDivisorFrom(n, d + 1)
IsPrime(n) == n >= 2 /\ ~HasDivisorFrom(n, 2)

\* smallest prime factor of n >= 2
RECURSIVE SpfFrom(_, _)
SpfFrom(n, d) == IF d * d > n THEN n ELSE IF n % d = 0 THEN d ELSE SpfFrom(n, d + 1)
Spf(n) == SpfFrom(n, 2)

\* sequence of prime factors with multiplicity, ascending
RECURSIVE FactorSeq(_)
FactorSeq(n) == IF n < 2 THEN << >> ELSE LET p == Spf(n) IN <<p>> \o FactorSeq(n \div p)

\* multiplicity of prime p in n (n >= 1)
RECURSIVE Mult(_, _)
Mult(n, p) == IF n % p # 0 THEN 0 ELSE 1 + Mult(n \div p, p)

\* n with every factor p removed
RECURSIVE StripFactor(_, _)
StripFactor(n, p) == IF n % p # 0 THEN n ELSE StripFactor(n \div p, p)

RECURSIVE SeqProduct(_)
SeqProduct(s) == IF s = << >> THEN 1 ELSE Head(s) * SeqProduct(Tail(s))

RECURSIVE SeqSum(_)
SeqSum(s) == IF s = << >> THEN 0 ELSE Head(s) + SeqSum(Tail(s))

SeqMax(s) == IF s = << >> THEN 0 ELSE CHOOSE m \in {s[i] : i \in DOMAIN s} : \A i \in DOMAIN s : s[i] <= m

(***************************************************************************)
(* Upper bound of 1024*log2(n), n in 1..2^30.                              *)
(* Mantissa m = n / 2^e in Q14, ten squarings give ten fractional bits;    *)
(* every rounding is upwards and the truncated tail (< 2^-10) is covered   *)
(* by the final +1, so Log2Q10(n) >= 1024*log2(n) always (never stricter   *)
(* than the real-valued bound it stands for; slack < 0.2 %).               *)
(***************************************************************************)
RECURSIVE L2Frac(_, _, _)
L2Frac(m, i, acc) ==
    IF i = 0 THEN acc
    ELSE LET sq == (m * m + 16383) \div 16384 IN
         IF sq >= 32768 THEN L2Frac((sq + 1) \div 2, i - 1, acc + Pow(2, i - 1))
                        ELSE L2Frac(sq, i - 1, acc)

Log2Q10(n) ==
    LET e  == Log2Floor(n)
        m0 == IF e >= 14 THEN (n + Pow(2, e - 14) - 1) \div Pow(2, e - 14)
                         ELSE n * Pow(2, 14 - e)
    IN  e * 1024 + L2Frac(m0, 10, 0) + 1

\* modular arithmetic for moduli p < 2^20 (limb split keeps products < 2^31)
MulMod(a, b, p) == (((((a \div 1024) * b) % p) * 1024) + ((a % 1024) * b)) % p
AddMod(a, b, p) == (a + b) % p
SubMod(a, b, p) == (a + p - b) % p
RECURSIVE PowMod(_, _, _)
PowMod(a, e, p) == IF e = 0 THEN 1 % p
                   ELSE LET h == PowMod(a, e \div 2, p)
                            s == MulMod(h, h, p)
                        IN IF e % 2 = 1 THEN MulMod(s, a % p, p) ELSE s
=============================================================================
