SPECIFICATION Spec
CONSTANTS
  Thr = {"A", "B"}
  Steps = 4
  LazyTable = FALSE
  SharedWorkspace = FALSE
  Export = TRUE
INVARIANT Inv
CHECK_DEADLOCK FALSE
