SPECIFICATION Spec
CONSTANTS
  Thr = {"A", "B"}
  Steps = 4
  SharedWorkspace = FALSE
  Export = TRUE
INVARIANT Inv
CHECK_DEADLOCK FALSE
