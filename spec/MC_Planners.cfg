SPECIFICATION Spec
CONSTANTS
  NMax = 16384
  Extra = {65536, 65537, 49152, 9973, 10007, 30030, 32805, 46189, 131071, 177147, 262144, 524287, 1048576, 1594323, 2097152, 2097143, 4194304}
  Variants = {"scalar", "sse", "avx32", "avx64", "avx32-noavx2", "avx64-noavx2"}
INVARIANT PlanInv
CHECK_DEADLOCK FALSE
