SPECIFICATION Spec
CONSTANTS
  P = 120121
  BigN = 120120
  GRe = 99425
  GIm = 73526
  G <- GPair
  MaxLen = 200
INVARIANT Inv
CHECK_DEADLOCK FALSE
