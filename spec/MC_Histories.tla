--------------------------- MODULE MC_Histories ---------------------------
(***************************************************************************)
(* C10 at design level, for the planner whose plans depend on its cache:   *)
(* the AVX planner (src/avx/avx_planner.rs).  State = the set of lengths   *)
(* cached for one direction (the two directions use separate maps and      *)
(* never interact) and the request history.  Each step plans one request   *)
(* with AvxPlanFft given the current cache (cache short-cut,               *)
(* replan_with_cache) and then constructs it, which inserts the base and   *)
(* every radix stage - and, for Rader / Bluestein bases, everything the    *)
(* recursive inner plan inserts - into the cache.                          *)
(* Invariants: whatever was planned before, the plan never panics, its     *)
(* base*radixes product is the requested length, a CacheBase is really in  *)
(* the cache (the unwrap in construct_plan cannot fail), every radix is    *)
(* one the planner can build.  All histories up to MaxHist requests over   *)
(* the pool are explored and exported for replay on the real planner.      *)
(***************************************************************************)
EXTENDS PlannerAvx, TLC, Json

CONSTANTS Pool, MaxHist, Elem, Avx2, Export

VARIABLES cache, hist, bad
vars == <<cache, hist, bad>>

\* lengths inserted by constructing `plan` (and, recursively, its inner plans) on top of `c`
RECURSIVE Inserted(_, _, _)
Inserted(plan, c, depth) ==
    LET b == plan.base
        innerIns == IF b.k \in {"RadersBase", "BluesteinsBase"} /\ depth < 6
                    THEN LET ip == AvxPlanFft(Elem, Avx2, b.inner, c) IN
                         IF IsPanicPlan(ip) THEN {} ELSE Inserted(ip, c, depth + 1)
                    ELSE {}
        baseIns == IF b.k = "CacheBase" THEN {} ELSE {b.len}
        chain == ChainLens(plan.radixes, 1, b.len)
    IN innerIns \cup baseIns \cup {chain[i] : i \in DOMAIN chain}

PlanOk(plan, n, c) ==
    /\ ~IsPanicPlan(plan)
    /\ PlanLen(plan) = n
    /\ plan.base.k = "CacheBase" => plan.base.len \in c
    /\ plan.base.k = "ButterflyBase" => IsButterflyAvx(Elem, plan.base.len)
    /\ \A i \in DOMAIN plan.radixes : plan.radixes[i] \in AvxRadixes
    /\ plan.base.k = "BluesteinsBase" => plan.base.inner >= 2 * plan.base.len - 1

Init == cache = {} /\ hist = << >> /\ bad = FALSE
Request(n) ==
    /\ Len(hist) < MaxHist
    /\ LET plan == AvxPlanFft(Elem, Avx2, n, cache) IN
       /\ bad' = ~PlanOk(plan, n, cache)
       /\ cache' = IF IsPanicPlan(plan) THEN cache ELSE cache \cup Inserted(plan, cache, 0)
    /\ hist' = Append(hist, n)
Next == (\E n \in Pool : Request(n)) \/ (Len(hist) = MaxHist /\ UNCHANGED vars)
Spec == Init /\ [][Next]_vars

HistoryIndependent == ~bad
\* every cached length can be planned again straight from the cache
CacheShortcut == \A l \in cache : AvxPlanFft(Elem, Avx2, l, cache).base.k = "CacheBase"
ExportHistory == (Export /\ Len(hist) = MaxHist) => PrintT(<<"SCN", ToJson([elem |-> Elem, seq |-> hist])>>)
Inv == HistoryIndependent /\ CacheShortcut /\ ExportHistory
=============================================================================
