------------------------------ MODULE PrimRoot ------------------------------
(***************************************************************************)
(* src/math_utils.rs, loop by loop: distinct_prime_factors (trial division *)
(* with a limit that is recomputed whenever a factor is removed) and        *)
(* primitive_root (smallest candidate that survives the test exponents      *)
(* (p-1)/q for the q's the first function returned).  Rader's algorithm     *)
(* (scalar and AVX) builds its input and output index permutations from     *)
(* this generator, so C01/C06/C12 for every Rader node rest on              *)
(*                                                                          *)
(*   RootOk: the value returned for a prime p generates the whole           *)
(*           multiplicative group mod p (order exactly p-1), and            *)
(*   FactorsOk: the factor list is exactly the set of prime divisors.       *)
(*                                                                          *)
(* The oracle side uses the *definition* (IsPrime by trial over all d) and  *)
(* shares nothing with the transcribed loops.  One behaviour per prime:     *)
(* pc = "two" -> "odd"* -> "tail" -> "cand"* -> "done".                    *)
(*                                                                          *)
(* Idealisation: the code computes the limit as (n as f32).sqrt() as u64+1; *)
(* for n < 2^24 the conversion is exact and the correctly rounded f32 sqrt  *)
(* truncates to floor(sqrt(n)) (a perfect square has an exact root, and     *)
(* below 2^24 no non-square's root rounds up to the next integer), so the   *)
(* model uses ISqrt.  Strict = TRUE is the `divisor*divisor < n` rewrite    *)
(* of seeded change C06-4 and must violate RootOk (first at p = 3631).      *)
(***************************************************************************)
EXTENDS Naturals, Sequences, FiniteSets

CONSTANTS MinP, MaxP, Strict

IsPrime(k) == k >= 2 /\ \A d \in 2..(k - 1) : d * d > k \/ k % d # 0
Primes == {k \in MinP..MaxP : IsPrime(k)}

ISqrt(k) == CHOOSE s \in 0..80 : s * s <= k /\ (s + 1) * (s + 1) > k
ASSUME MaxP < 6400

RECURSIVE PowMod(_, _, _)
PowMod(b, e, m) == IF e = 0 THEN 1 % m
                   ELSE LET h == PowMod((b * b) % m, e \div 2, m)
                        IN IF e % 2 = 1 THEN (b * h) % m ELSE h

RECURSIVE StripAll(_, _)
StripAll(k, d) == IF k % d = 0 THEN StripAll(k \div d, d) ELSE k

Limit(k) == ISqrt(k) + 1

VARIABLES p, pc, n, divisor, limit, result, cand

vars == <<p, pc, n, divisor, limit, result, cand>>

Init == /\ p \in Primes /\ p > 2
        /\ pc = "two" /\ n = p - 1 /\ divisor = 3 /\ limit = 0 /\ result = <<>> /\ cand = 2

\* if n % 2 == 0 { strip; push 2 }  if n > 1 { divisor = 3; limit = ... }
Two == /\ pc = "two"
       /\ LET m == StripAll(n, 2) IN
            /\ n' = m
            /\ result' = IF n % 2 = 0 THEN <<2>> ELSE <<>>
            /\ IF m > 1 THEN pc' = "odd" /\ limit' = Limit(m) ELSE pc' = "cand" /\ limit' = limit
       /\ UNCHANGED <<p, divisor, cand>>

LoopCond == IF Strict THEN divisor * divisor < n ELSE divisor < limit

\* one iteration of `while divisor < limit`
Odd == /\ pc = "odd"
       /\ IF LoopCond
            THEN /\ IF n % divisor = 0
                      THEN LET m == StripAll(n, divisor) IN
                           n' = m /\ result' = Append(result, divisor) /\ limit' = Limit(m)
                      ELSE UNCHANGED <<n, result, limit>>
                 /\ divisor' = divisor + 2 /\ pc' = pc
            ELSE pc' = "tail" /\ UNCHANGED <<n, result, limit, divisor>>
       /\ UNCHANGED <<p, cand>>

\* if n > 1 { push n }
TailStep == /\ pc = "tail"
            /\ result' = IF n > 1 THEN Append(result, n) ELSE result
            /\ pc' = "cand"
            /\ UNCHANGED <<p, n, divisor, limit, cand>>

Rejected(c) == \E i \in 1..Len(result) : PowMod(c, (p - 1) \div result[i], p) = 1

\* 'next: for potential_root in 2..prime
Cand == /\ pc = "cand"
        /\ IF cand >= p THEN pc' = "none" /\ cand' = cand
           ELSE IF Rejected(cand) THEN cand' = cand + 1 /\ pc' = pc
           ELSE pc' = "done" /\ cand' = cand
        /\ UNCHANGED <<p, n, divisor, limit, result>>

Next == Two \/ Odd \/ TailStep \/ Cand
Spec == Init /\ [][Next]_vars

\* ---- oracle, from the definitions only
TruePrimeDivisors(k) == {d \in 2..k : k % d = 0 /\ IsPrime(d)}
Generates(g) == \A q \in TruePrimeDivisors(p - 1) : PowMod(g, (p - 1) \div q, p) # 1

FactorsOk == pc \in {"cand", "done", "none"} =>
               /\ {result[i] : i \in 1..Len(result)} = TruePrimeDivisors(p - 1)
               /\ Len(result) = Cardinality(TruePrimeDivisors(p - 1))
               /\ \A i \in 1..(Len(result) - 1) : result[i] < result[i + 1]
RootOk == /\ pc # "none"
          /\ pc = "done" => /\ cand \in 2..(p - 1) /\ Generates(cand)
                            /\ \A c \in 2..(cand - 1) : ~Generates(c)      \* and it is the least one
\* loop invariant of the trial division: what is left has no prime divisor below `divisor`
LoopInv == pc = "odd" => \A d \in 3..(divisor - 1) : n % d # 0
=============================================================================
