SPECIFICATION Spec
CONSTANTS
  MaxChunk = 4
  MaxLen = 13
  MaxScratch = 3
INVARIANT Inv
CHECK_DEADLOCK FALSE
