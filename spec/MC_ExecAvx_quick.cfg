SPECIFICATION Spec
CONSTANTS
  P = 55441
  BigN = 55440
  GRe = 28469
  GIm = 52406
  G <- GPair
  MaxLen = 64
INVARIANT Inv
CHECK_DEADLOCK FALSE
