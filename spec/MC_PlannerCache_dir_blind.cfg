SPECIFICATION Spec
CONSTANTS
  Pool = {2, 7, 11, 12, 22, 23, 77, 121, 143, 253}
  MaxHist = 3
  Defect = "dir-blind"
INVARIANT Inv
CHECK_DEADLOCK FALSE
