---------------------------- MODULE MC_Dataflow ----------------------------
(***************************************************************************)
(* Induction step of C07 / C08 / C15 for every portable wrapper algorithm  *)
(* and entry point, for all small child lengths and all child scratch      *)
(* needs of the bounded domain (the scratch length handed in is exactly    *)
(* the one the constructor advertises, Scratch.tla): starting from memory  *)
(* whose scratch and output hold foreign taints, every output element ends *)
(* up depending on all inputs of its chunk and on nothing else, and the    *)
(* immutable entry leaves its input intact.                                *)
(***************************************************************************)
EXTENDS Dataflow, Scratch, TLC

CONSTANTS Lens, Needs, BlueZeroTo      \* BlueZeroTo = "all" (as in the code) or "head" (hypothetical: only the first 2n-1 cells)

VARIABLES k, entry, a, b, na, nb
vars == <<k, entry, a, b, na, nb>>

Child(len, ip, oop) == [len |-> len, scr |-> <<ip, oop, 0>>]

Init ==
    /\ k \in {"MixedRadix", "RadersAlgorithm", "BluesteinsAlgorithm", "Radix4", "RadixN", "AvxRadix"}
    /\ entry \in {IP, OOP, IM}
    /\ a \in Lens /\ b \in Lens /\ na \in Needs /\ nb \in Needs
    /\ (k \notin {"MixedRadix", "AvxRadix"} => b = 2 /\ nb = 0)
    /\ (k = "AvxRadix" => b = 2)
Next == UNCHANGED vars
Spec == Init /\ [][Next]_vars

Final ==
    CASE k = "MixedRadix" ->
            LET n == a * b  ch == <<Child(a, na, nb), Child(b, nb, 0)>>  z == Scr(k, n, ch)[entry]  m0 == InitMem(n, z) IN
            [n |-> n, m |-> CASE entry = IP -> MixedRadixInplace(m0, a, b) [] entry = OOP -> MixedRadixOop(m0, a, b) [] OTHER -> MixedRadixImmut(m0, a, b)]
      [] k = "RadersAlgorithm" ->
            LET n == a + 1  ch == <<Child(a, na, 0)>>  z == Scr(k, n, ch)[entry]  m0 == InitMem(n, z) IN
            [n |-> n, m |-> CASE entry = IP -> RadersInplace(m0, n) [] entry = OOP -> RadersOop(m0, n) [] OTHER -> RadersImmut(m0, n)]
      [] k = "BluesteinsAlgorithm" ->
            \* inner length a + 2*... : choose n so that the inner length a is at least 2n-1
            LET n == Max(1, (a + 1) \div 3)  ch == <<Child(a, na, 0)>>  z == a + na  m0 == InitMem(n, z)
                zt == IF BlueZeroTo = "all" THEN a ELSE Min(2 * n - 1, a)
            IN [n |-> n, m |-> BluesteinsAny(m0, n, a, n + 1, zt, entry = IP)]
      [] k = "Radix4" ->
            LET n == a * 4  ch == <<Child(a, na, 0)>>  z == Scr(k, n, ch)[entry]  m0 == InitMem(n, z) IN
            [n |-> n, m |-> CASE entry = IP -> RadixInplace(m0, a, <<4>>) [] entry = OOP -> RadixOop(m0, a, <<4>>) [] OTHER -> RadixImmut(m0, a, <<4>>)]
      [] k = "AvxRadix" ->
            LET n == a * 3  ch == <<Child(a, na, nb)>>  z == Scr(k, n, ch)[entry]  m0 == InitMem(n, z) IN
            [n |-> n, m |-> CASE entry = IP -> AvxRadixInplace(m0, 3, a) [] entry = OOP -> AvxRadixOop(m0, 3, a) [] OTHER -> AvxRadixImmut(m0, 3, a)]
      [] k = "RadixN" ->
            LET n == a * 6  ch == <<Child(a, na, 0)>>  z == Scr(k, n, ch)[entry]  m0 == InitMem(n, z) IN
            [n |-> n, m |-> CASE entry = IP -> RadixInplace(m0, a, <<3, 2>>) [] entry = OOP -> RadixOop(m0, a, <<3, 2>>) [] OTHER -> RadixImmut(m0, a, <<3, 2>>)]

Applicable == k = "BluesteinsAlgorithm" => a >= 2 * Max(1, (a + 1) \div 3) - 1

Pure ==
    Applicable =>
        LET f == Final IN
        /\ OutputPure(IF entry = IP THEN f.m.X ELSE f.m.Y, f.n)
        /\ entry = IM => InputIntact(f.m.X, f.n)
=============================================================================
