------------------------------ MODULE MC_Exec ------------------------------
(***************************************************************************)
(* C01 / C06 / C12 at design level: every tree of the bounded universe     *)
(* computes the DFT exactly over GF(P)[i], in both directions, on the      *)
(* whole impulse basis; forward then inverse gives n*x.  One initial state *)
(* per (tree, direction).                                                  *)
(***************************************************************************)
EXTENDS Exec, TLC

CONSTANT MaxD1Len      \* first-level trees longer than this are left out (quick tier)

Leaf(n) == [k |-> "Dft", len |-> n, fs |-> << >>, ch |-> << >>]
Node(k, len, fs, ch) == [k |-> k, len |-> len, fs |-> fs, ch |-> ch]

GConst == <<5930, 2027>>
LeafLens == {1, 2, 3, 4, 5, 6, 7, 8}

Pairs == {<<a, b>> \in LeafLens \X LeafLens : a * b <= 48 /\ a >= 2 /\ b >= 2}
D1 ==
    {Node("MixedRadix", p[1] * p[2], << >>, <<Leaf(p[1]), Leaf(p[2])>>) : p \in Pairs} \cup
    {Node("GoodThomas", p[1] * p[2], << >>, <<Leaf(p[1]), Leaf(p[2])>>) : p \in {q \in Pairs : Gcd(q[1], q[2]) = 1}} \cup
    {Node("Raders", n, << >>, <<Leaf(n - 1)>>) : n \in {3, 5, 7}} \cup
    {Node("Bluesteins", q[1], << >>, <<Leaf(q[2])>>) :
        q \in {<<2, 3>>, <<2, 4>>, <<3, 5>>, <<3, 6>>, <<3, 8>>, <<4, 7>>, <<4, 8>>, <<5, 10>>, <<5, 12>>, <<6, 12>>, <<7, 14>>, <<7, 16>>}} \cup
    {Node("Radix4", 4 * b, <<4>>, <<Leaf(b)>>) : b \in {1, 2, 3, 4, 5}} \cup
    {Node("Radix4", 16 * b, <<4, 4>>, <<Leaf(b)>>) : b \in {1, 3, 5}} \cup
    {Node("Radix3", 3 * b, <<3>>, <<Leaf(b)>>) : b \in {1, 2, 3, 4, 5}} \cup
    {Node("Radix3", 9 * b, <<3, 3>>, <<Leaf(b)>>) : b \in {1, 2, 4, 5}} \cup
    {Node("RadixN", SeqProduct(f) * b, f, <<Leaf(b)>>) :
        f \in {<<2>>, <<3>>, <<5>>, <<2, 3>>, <<3, 2>>, <<5, 2>>, <<2, 2, 3>>, <<7, 2>>, <<4, 3>>, <<6, 5>>, <<3, 4, 2>>, <<7, 6>>, <<2, 4>>, <<5, 3, 2>>},
        b \in {1, 2, 3}}

D2 == { Node("MixedRadix", 24, << >>, <<Node("GoodThomas", 6, << >>, <<Leaf(2), Leaf(3)>>), Leaf(4)>>),
        Node("GoodThomas", 35, << >>, <<Node("Raders", 5, << >>, <<Leaf(4)>>), Node("Raders", 7, << >>, <<Node("MixedRadix", 6, << >>, <<Leaf(2), Leaf(3)>>)>>)>>),
        Node("Raders", 7, << >>, <<Node("GoodThomas", 6, << >>, <<Leaf(3), Leaf(2)>>)>>),
        Node("Bluesteins", 5, << >>, <<Node("Radix4", 12, <<4>>, <<Leaf(3)>>)>>),
        Node("Bluesteins", 7, << >>, <<Node("RadixN", 14, <<7>>, <<Leaf(2)>>)>>),
        Node("RadixN", 30, <<3, 2>>, <<Node("Raders", 5, << >>, <<Leaf(4)>>)>>),
        Node("Radix4", 20, <<4>>, <<Node("Bluesteins", 5, << >>, <<Leaf(10)>>)>>),
        Node("MixedRadix", 21, << >>, <<Node("Bluesteins", 3, << >>, <<Leaf(5)>>), Node("Raders", 7, << >>, <<Leaf(6)>>)>>) }

Fits(x) == BigN % x.len = 0 /\ (x.k = "Bluesteins" => BigN % (2 * x.len) = 0) /\ \A i \in DOMAIN x.ch : BigN % x.ch[i].len = 0
Universe == {x \in {y \in D1 : y.len <= MaxD1Len} \cup D2 : Fits(x)}

ASSUME /\ IsPrime(P) /\ (P - 1) % BigN = 0
       /\ CPow(G, BigN, P) = COne
       /\ \A q \in {d \in 2..BigN : BigN % d = 0 /\ IsPrime(d)} : CPow(G, BigN \div q, P) # COne
       /\ CMul(G, CConj(G, P), P) = COne
ASSUME \A t \in Universe : BigN % t.len = 0

VARIABLES t, inv, verdict
\* the evaluation happens in a transition (worker threads have the large -Xss stack that the deep recursion needs)
Init == t \in Universe /\ inv \in BOOLEAN /\ verdict = "todo"
IsDft == \A j \in 0..(t.len - 1) : Run(t, Impulse(t.len, j), inv) = DftColumn(t.len, j, inv)
\* the two Good-Thomas index maps are permutations and stay in range for every coprime pair of the universe
GtMapsOk == t.k = "GoodThomas" =>
              LET w == Min(t.ch[1].len, t.ch[2].len) h == Max(t.ch[1].len, t.ch[2].len) IN
              /\ GtInputInRange(w, h) /\ GtOutputIsPermutation(w, h)
              /\ {GtInputDest(w, h)[i] : i \in 1..(w * h)} = 0..(w * h - 1)
\* C06 at design level: inverse(forward(e_j)) = n * e_j
RoundTrip == \A j \in {0, t.len - 1} :
                Run(t, Run(t, Impulse(t.len, j), inv), ~inv) = [i \in 1..t.len |-> CScale(Impulse(t.len, j)[i], t.len, P)]
Next == /\ verdict = "todo"
        /\ verdict' = IF GtMapsOk /\ IsDft /\ RoundTrip THEN "dft" ELSE "WRONG"
        /\ UNCHANGED <<t, inv>>
Spec == Init /\ [][Next]_<<t, inv, verdict>>
Inv == verdict # "WRONG"
=============================================================================
