---------------------------- MODULE MulRemLemma ----------------------------
(***************************************************************************)
(* Unbounded version of spec/MulRem.tla for the machine word of the code   *)
(* (S = 32): for ALL 0 <= a, b < d < 2^31 the quotient estimate of         *)
(* VectorizedMultiplyMod::mul_rem is low by at most one, i.e. the          *)
(* uncorrected remainder lies in [0, 2d), so one conditional subtraction   *)
(* yields (a*b) mod d; no operand of a widening multiply exceeds 32 bits.  *)
(* Floors are expressed by their defining inequalities (no division):      *)
(*    inter * d <= b * 2^32 < (inter + 1) * d                              *)
(*    q * 2^32  <= a * inter < (q + 1) * 2^32                              *)
(*   apalache-mc check --init=Init --inv=Lemma --length=0 MulRemLemma.tla  *)
(***************************************************************************)
EXTENDS Integers

VARIABLES
    \* @type: Int;
    a,
    \* @type: Int;
    b,
    \* @type: Int;
    d,
    \* @type: Int;
    inter,
    \* @type: Int;
    q

W == 4294967296

Init == /\ a \in Int /\ b \in Int /\ d \in Int /\ inter \in Int /\ q \in Int
        /\ d >= 2 /\ d < 2147483648
        /\ a >= 0 /\ a < d /\ b >= 0 /\ b < d
        /\ inter >= 0 /\ inter * d <= b * W /\ b * W < (inter + 1) * d
        /\ q >= 0 /\ q * W <= a * inter /\ a * inter < (q + 1) * W
Next == UNCHANGED <<a, b, d, inter, q>>

Lemma == /\ inter < W
         /\ q < W
         /\ a * b - q * d >= 0
         /\ a * b - q * d < 2 * d
=============================================================================
