---------------------------- MODULE ScratchLemmas ----------------------------
(***************************************************************************)
(* Unbounded version of MC_Scratch: for ALL child lengths and ALL child    *)
(* scratch needs (arbitrary naturals), the scratch advertised by each      *)
(* portable wrapper algorithm suffices for every child call of every entry *)
(* point and every split_at_mut is in range.  The formulas are the ones of *)
(* spec/Scratch.tla written over plain integers (Apalache's fragment);     *)
(* TLC checks the two formulations against each other on a bounded domain  *)
(* (MC_Scratch), Apalache discharges this one symbolically:                *)
(*   apalache-mc check --init=Any --inv=AllSuffice --length=0              *)
(***************************************************************************)
EXTENDS Integers

VARIABLES
    \* @type: Int;
    wl,     \* width child: length
    \* @type: Int;
    wi,     \* width child: in-place scratch need
    \* @type: Int;
    wo,     \* width child: out-of-place scratch need
    \* @type: Int;
    hl,
    \* @type: Int;
    hi,
    \* @type: Int;
    ho,
    \* @type: Int;
    bl      \* Bluestein's own length (2*bl - 1 <= wl)

Max(a, b) == IF a >= b THEN a ELSE b

Any == /\ wl \in Int /\ wi \in Int /\ wo \in Int /\ hl \in Int /\ hi \in Int /\ ho \in Int /\ bl \in Int
       /\ wl >= 1 /\ hl >= 1 /\ wi >= 0 /\ wo >= 0 /\ hi >= 0 /\ ho >= 0 /\ bl >= 1 /\ 2 * bl - 1 <= wl

Next == UNCHANGED <<wl, wi, wo, hl, hi, ho, bl>>

\* ---- MixedRadix(width = w, height = h) -------------------------------------------------------
MrLen == wl * hl
MrIp  == MrLen + Max(IF hi > MrLen THEN hi ELSE 0, wo)
MrOop == IF Max(hi, wi) > MrLen THEN Max(hi, wi) ELSE 0
MrIm  == Max(MrLen + wi, hi)
MixedRadixSuffices ==
    \* in-place: split at len; height in-place gets the inner scratch if longer than the buffer else the buffer; width out-of-place gets the inner scratch
    /\ MrIp >= MrLen
    /\ (IF MrIp - MrLen > MrLen THEN MrIp - MrLen ELSE MrLen) >= hi
    /\ MrIp - MrLen >= wo
    \* out-of-place: both children in-place with the scratch if longer than len else a data buffer
    /\ (IF MrOop > MrLen THEN MrOop ELSE MrLen) >= hi
    /\ (IF MrOop > MrLen THEN MrOop ELSE MrLen) >= wi
    \* immutable: height in-place with all of it, then split at len, width in-place with the rest
    /\ MrIm >= hi /\ MrIm >= MrLen /\ MrIm - MrLen >= wi

\* ---- GoodThomasAlgorithm (children already ordered width <= height by the constructor) ------------
GtIp  == MrLen + Max(IF wi > MrLen THEN wi ELSE 0, ho)
GtOop == MrOop
GtIm  == Max(wi, MrLen + hi)
GoodThomasSuffices ==
    /\ GtIp >= MrLen
    /\ (IF GtIp - MrLen > MrLen THEN GtIp - MrLen ELSE MrLen) >= wi
    /\ GtIp - MrLen >= ho
    /\ (IF GtOop > MrLen THEN GtOop ELSE MrLen) >= wi
    /\ (IF GtOop > MrLen THEN GtOop ELSE MrLen) >= hi
    /\ GtIm >= wi /\ GtIm >= MrLen /\ GtIm - MrLen >= hi

\* ---- RadersAlgorithm(inner = w) -------------------------------------------------------------------------
RaExtra == IF wi <= wl THEN 0 ELSE wi
RaIp  == wl + RaExtra
RaOop == RaExtra
RaIm  == wl + wi
RadersSuffices ==
    /\ RaIp >= wl /\ (IF RaIp - wl > 0 THEN RaIp - wl ELSE wl) >= wi
    /\ (IF RaOop > 0 THEN RaOop ELSE wl) >= wi
    /\ RaIm >= wl /\ RaIm - wl >= wi

\* ---- BluesteinsAlgorithm(bl, inner = w) ----------------------------------------------------------------
BlAll == wl + wi
BluesteinsSuffices == BlAll >= wl /\ BlAll - wl >= wi

\* ---- Radix4 / Radix3 / RadixN (base = w, total length hl * wl with hl the product of the radixes) ---------
RxLen == wl * hl
RxIp  == IF wi > RxLen THEN RxLen + wi ELSE RxLen
RxOop == IF wi > RxLen THEN wi ELSE 0
RxIm  == wi
RadixSuffices ==
    /\ RxIp >= RxLen /\ (IF RxIp - RxLen > 0 THEN RxIp - RxLen ELSE RxLen) >= wi
    /\ (IF RxOop > 0 THEN RxOop ELSE RxLen) >= wi
    /\ RxIm >= wi

\* ---- AVX mixed-radix stage Rxn (inner = w, total length hl * wl with hl = R) --------------------------------------
AvIp  == RxLen + wo
AvOop == IF wi > RxLen THEN wi ELSE 0
AvIm  == RxLen + wi
AvxRadixSuffices ==
    /\ AvIp >= RxLen /\ AvIp - RxLen >= wo
    /\ (IF AvOop > 0 THEN AvOop ELSE RxLen) >= wi
    /\ AvIm >= RxLen /\ AvIm - RxLen >= wi

AllSuffice == AvxRadixSuffices /\ MixedRadixSuffices /\ GoodThomasSuffices /\ RadersSuffices /\ BluesteinsSuffices /\ RadixSuffices

\* C05, structural part: the advertised lengths are at most the node's length plus what the children need
LinearGrowth == /\ MrIp <= MrLen + Max(hi, wo) /\ MrOop <= Max(hi, wi) /\ MrIm <= MrLen + Max(wi, hi)
                /\ RaIp <= wl + wi /\ BlAll <= wl + wi /\ RxIp <= RxLen + wi
=============================================================================
