------------------------------ MODULE CallLoop ------------------------------
(***************************************************************************)
(* Unbounded version of the chunk loop of validate_and_iter (array_utils): *)
(* the loop invariant  rem + c * visited = total  is inductive for ALL      *)
(* chunk sizes and buffer lengths, hence at loop exit (rem < c) the buffer *)
(* was fully consumed exactly when total is a multiple of c, and the       *)
(* chunks visited are 0..visited-1 without gap or overlap.                 *)
(* Checked with Apalache:                                                  *)
(*   apalache-mc check --init=Init    --inv=IndInv --length=0 CallLoop.tla *)
(*   apalache-mc check --init=IndInit --inv=IndInv --length=1 CallLoop.tla *)
(*   apalache-mc check --init=IndInit --inv=ExitOk --length=0 CallLoop.tla *)
(***************************************************************************)
EXTENDS Integers

VARIABLES
    \* @type: Int;
    c,
    \* @type: Int;
    total,
    \* @type: Int;
    rem,
    \* @type: Int;
    visited,
    \* @type: Int;
    k

TypeOk == c \in Int /\ total \in Int /\ rem \in Int /\ visited \in Int /\ k \in Int

\* total = k*c + r with 0 <= r < c is how "multiple of c" is expressed without division
Init == /\ TypeOk /\ c >= 1 /\ total >= 0 /\ rem = total /\ visited = 0 /\ k >= 0 /\ k * c <= total /\ total < (k + 1) * c

Next == \/ /\ rem >= c
           /\ rem' = rem - c /\ visited' = visited + 1
           /\ UNCHANGED <<c, total, k>>
        \/ /\ rem < c
           /\ UNCHANGED <<c, total, rem, visited, k>>

IndInv == /\ c >= 1 /\ total >= 0 /\ rem >= 0 /\ visited >= 0 /\ k >= 0
          /\ k * c <= total /\ total < (k + 1) * c
          /\ rem + c * visited = total
IndInit == TypeOk /\ IndInv

\* at loop exit: everything consumed iff total is a multiple of c, and then exactly k chunks were visited
ExitOk == (IndInv /\ rem < c) => ((rem = 0) <=> (total = k * c)) /\ visited = k
=============================================================================
