SPECIFICATION TraceSpec
CONSTANT Prop = "C06"
INVARIANT TraceInv
POSTCONDITION TraceAccepted
CHECK_DEADLOCK FALSE
