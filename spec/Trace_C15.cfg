SPECIFICATION TraceSpec
CONSTANT Prop = "C15"
INVARIANT TraceInv
POSTCONDITION TraceAccepted
CHECK_DEADLOCK FALSE
