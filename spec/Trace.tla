------------------------------- MODULE Trace -------------------------------
(***************************************************************************)
(* Trace specification: validates an ndjson trace recorded from the real   *)
(* library (harness `rfv`) against RustFFT.tla.  One T_<Action> per event  *)
(* kind = IsEvent(kind) /\ <bind logged fields> /\ <RustFFT action>.       *)
(* A `Crash` event has no transition: a trace containing one is not a      *)
(* behaviour of the specification.                                         *)
(***************************************************************************)
EXTENDS RustFFT, CallProtocol, Json, IOUtils, Sequences

Rec == ndJsonDeserialize(IOEnv.TRACE)

VARIABLE l      \* next event to consume
VARIABLE iters  \* stack of chunk-iteration helper invocations in progress (hook H4), innermost last
VARIABLE idrift \* faithful-layer mismatches of the chunk accounting (never a violation)

tvars == <<vars, l, iters, idrift>>

E == Rec[l]
IsEvent(k) == l <= Len(Rec) /\ Rec[l].ev = k /\ l' = l + 1
NoIter == UNCHANGED <<iters, idrift>>

SeqToSet(s) == {s[i] : i \in DOMAIN s}

T_Reset       == IsEvent("Reset") /\ Reset(SeqToSet(E.features), E.mask) /\ iters' = << >> /\ UNCHANGED idrift
T_NewPlanner  == IsEvent("NewPlanner") /\ NewPlanner(E.pid, E.kind, E.elem, E.result, E.backend) /\ NoIter
T_DropPlanner == IsEvent("DropPlanner") /\ DropPlanner(E.pid) /\ NoIter
T_PlanBegin   == IsEvent("PlanBegin") /\ PlanBegin(E.pid, E.n, E.dir) /\ NoIter
T_CacheGet    == IsEvent("CacheGet") /\ CacheGet(E.len, E.dir, E.hit) /\ NoIter
T_CacheInsert == IsEvent("CacheInsert") /\ CacheInsert(E.len, E.dir) /\ NoIter
T_Build       == IsEvent("Build") /\ Build(E.kind, E.len, E.dir, E.scr) /\ NoIter
T_PlanEnd     == IsEvent("PlanEnd") /\ PlanEnd(E.pid, E.iid, E.outcome, E.len, E.rdir, E.scr) /\ NoIter
T_PlanReport  == IsEvent("PlanReport") /\ PlanReport(E.pid, E.n, E.dir, E.outcome, E.tree) /\ NoIter
T_Construct   == IsEvent("Construct") /\ Construct(E.iid, E.elem, E.outcome, E.n, E.dir, E.len, E.rdir, E.scr, E.tree) /\ NoIter
T_ElemReport  == IsEvent("ElemReport") /\ ElemReport(E.elem, E.non_ring, E.tags_ok) /\ NoIter
T_CallBegin   == IsEvent("CallBegin") /\ CallBegin(E.cid, E.iid, E.entry, E.data, E.out, E.scratch, E.inh) /\ NoIter
T_CallEnd     == IsEvent("CallEnd") /\ CallEnd(E.cid, E.outcome, E.obs, E.role, E.key, E.outh) /\ NoIter
\* Hook-level chunk accounting (H4), judged by the faithful CallProtocol model: each Enter predicts the exact
\* sequence of Chunk steps <<width, remaining>>; a step that differs from the prediction is MODEL-DRIFT.
T_Enter ==
    /\ IsEvent("Enter")
    /\ iters' = Append(iters, [exp |-> ExpectedChunks(E.variant, E.chunk, E.len1, E.len2, E.scratch, E.required), pos |-> 0])
    /\ idrift' = idrift + DriftIf(E.depth # Len(iters), <<"iter-depth", E.depth, Len(iters)>>)
    /\ UNCHANGED vars
T_Chunk ==
    /\ IsEvent("Chunk")
    /\ IF iters = << >> THEN idrift' = idrift + DriftIf(TRUE, <<"chunk-outside-iteration", l>>) /\ UNCHANGED iters
       ELSE LET top == iters[Len(iters)]
                ok  == top.pos < Len(top.exp) /\ top.exp[top.pos + 1] = <<E.width, E.remaining>>
            IN /\ iters' = [iters EXCEPT ![Len(iters)].pos = @ + 1]
               /\ idrift' = idrift + DriftIf(~ok, <<"chunk-step", l, E.width, E.remaining>>)
    /\ UNCHANGED vars
T_Leave ==
    /\ IsEvent("Leave")
    /\ iters' = IF iters = << >> THEN iters ELSE SubSeq(iters, 1, Len(iters) - 1)
    /\ UNCHANGED <<vars, idrift>>
T_Iter == T_Enter \/ T_Chunk \/ T_Leave
T_Note        == IsEvent("Note") /\ UNCHANGED vars /\ NoIter

TraceInit == Init /\ l = 1 /\ iters = << >> /\ idrift = 0 /\ TLCSet(7, 0) /\ TLCSet(8, 0)

TraceNext ==
    \/ T_Reset \/ T_NewPlanner \/ T_DropPlanner
    \/ T_PlanBegin \/ T_CacheGet \/ T_CacheInsert \/ T_Build \/ T_PlanEnd \/ T_PlanReport \/ T_Construct
    \/ T_CallBegin \/ T_CallEnd \/ T_Iter \/ T_Note \/ T_ElemReport

TraceSpec == TraceInit /\ [][TraceNext]_tvars

\* all events consumed?  Otherwise print the first event that no action accepts.
TraceAccepted ==
    LET d == TLCGet("stats").diameter IN
    IF d - 1 = Len(Rec) /\ TLCGet(8) = 0 THEN PrintT(<<"TRACE-ACCEPTED", Len(Rec), "drift", TLCGet(7)>>)
    ELSE IF d - 1 = Len(Rec) THEN PrintT(<<"TRACE-REJECTED-AT", Len(Rec), ToJson([ev |-> "EndOfTrace", unclosed_calls |-> TLCGet(8)])>>) /\ FALSE
    ELSE /\ PrintT(<<"TRACE-REJECTED-AT", d, ToJson(Rec[d])>>)
         /\ FALSE

\* remember the last drift value in a TLC register so the postcondition can report it
DriftView == TLCSet(7, drift + idrift) /\ TLCSet(8, Cardinality(DOMAIN pending) + Len(planning))

TraceInv == TypeOk /\ C04_Inv /\ C13_Inv /\ PendingInv /\ DriftView
=============================================================================
