------------------------------- MODULE Trace -------------------------------
(***************************************************************************)
(* Trace specification: validates an ndjson trace recorded from the real   *)
(* library (harness `rfv`) against RustFFT.tla.  One T_<Action> per event  *)
(* kind = IsEvent(kind) /\ <bind logged fields> /\ <RustFFT action>.       *)
(* A `Crash` event has no transition: a trace containing one is not a      *)
(* behaviour of the specification.                                         *)
(***************************************************************************)
EXTENDS RustFFT, Json, IOUtils, Sequences

Rec == ndJsonDeserialize(IOEnv.TRACE)

VARIABLE l      \* next event to consume

tvars == <<vars, l>>

E == Rec[l]
IsEvent(k) == l <= Len(Rec) /\ Rec[l].ev = k /\ l' = l + 1

SeqToSet(s) == {s[i] : i \in DOMAIN s}

T_Reset       == IsEvent("Reset") /\ Reset(SeqToSet(E.features), E.mask)
T_NewPlanner  == IsEvent("NewPlanner") /\ NewPlanner(E.pid, E.kind, E.elem, E.result, E.backend)
T_DropPlanner == IsEvent("DropPlanner") /\ DropPlanner(E.pid)
T_PlanBegin   == IsEvent("PlanBegin") /\ PlanBegin(E.pid, E.n, E.dir)
T_CacheGet    == IsEvent("CacheGet") /\ CacheGet(E.len, E.dir, E.hit)
T_CacheInsert == IsEvent("CacheInsert") /\ CacheInsert(E.len, E.dir)
T_Build       == IsEvent("Build") /\ Build(E.kind, E.len, E.dir, E.scr)
T_PlanEnd     == IsEvent("PlanEnd") /\ PlanEnd(E.pid, E.iid, E.outcome, E.len, E.rdir, E.scr)
T_PlanReport  == IsEvent("PlanReport") /\ PlanReport(E.pid, E.n, E.dir, E.outcome, E.tree)
T_Construct   == IsEvent("Construct") /\ Construct(E.iid, E.elem, E.outcome, E.n, E.dir, E.len, E.rdir, E.scr)
T_ElemReport  == IsEvent("ElemReport") /\ ElemReport(E.elem, E.non_ring, E.tags_ok)
T_CallBegin   == IsEvent("CallBegin") /\ CallBegin(E.cid, E.iid, E.entry, E.data, E.out, E.scratch, E.inh)
T_CallEnd     == IsEvent("CallEnd") /\ CallEnd(E.cid, E.outcome, E.obs, E.role, E.key, E.outh)
\* hook-level chunk accounting is judged by the faithful CallProtocol model (separate config); here it stutters
T_Iter        == (IsEvent("Enter") \/ IsEvent("Chunk") \/ IsEvent("Leave")) /\ UNCHANGED vars
T_Note        == IsEvent("Note") /\ UNCHANGED vars

TraceInit == Init /\ l = 1 /\ TLCSet(7, 0)

TraceNext ==
    \/ T_Reset \/ T_NewPlanner \/ T_DropPlanner
    \/ T_PlanBegin \/ T_CacheGet \/ T_CacheInsert \/ T_Build \/ T_PlanEnd \/ T_PlanReport \/ T_Construct
    \/ T_CallBegin \/ T_CallEnd \/ T_Iter \/ T_Note \/ T_ElemReport

TraceSpec == TraceInit /\ [][TraceNext]_tvars

\* all events consumed?  Otherwise print the first event that no action accepts.
TraceAccepted ==
    LET d == TLCGet("stats").diameter IN
    IF d - 1 = Len(Rec) THEN PrintT(<<"TRACE-ACCEPTED", Len(Rec), "drift", TLCGet(7)>>)
    ELSE /\ PrintT(<<"TRACE-REJECTED-AT", d, ToJson(Rec[d])>>)
         /\ FALSE

\* remember the last drift value in a TLC register so the postcondition can report it
DriftView == TLCSet(7, drift)

TraceInv == TypeOk /\ C04_Inv /\ C13_Inv /\ PendingInv /\ DriftView
=============================================================================
