SPECIFICATION Spec
CONSTANTS
  Lens = {1, 2, 3, 5}
  Needs = {0, 1, 3, 9, 41}
INVARIANT Inv
CHECK_DEADLOCK FALSE
