---------------------------- MODULE PlannerCache ----------------------------
(***************************************************************************)
(* C10 (and the same-planner clause of C06) at design level for the        *)
(* portable and the SSE planner: the two caches behind plan_fft as a state *)
(* machine (src/plan.rs, src/sse/sse_planner.rs, src/fft_cache.rs).        *)
(*                                                                         *)
(*   design_fft_for_len(n)   recipe_cache hit, or design from the factors  *)
(*                           and insert under n                            *)
(*   design (split)          the two halves of a generic mixed-radix split *)
(*                           are designed from their factors WITHOUT going *)
(*                           through the cache (design_mixed_radix); the   *)
(*                           inner length of a prime (Rader: n-1) and the  *)
(*                           factors of a butterfly product go through     *)
(*                           design_fft_for_len, i.e. through the cache    *)
(*   build_fft(recipe, d)    algorithm_cache hit on (len, d), or build the *)
(*                           children first and insert under (len, d)      *)
(*                                                                         *)
(* What a length decomposes into (Shape) is abstract: any function giving  *)
(* the child lengths.  The invariants say that the caches are TRANSPARENT: *)
(* whatever the request history, the recipe cached or returned for n is    *)
(* the one a fresh planner designs, and the instance cached or returned    *)
(* for (n, d) is that recipe built for direction d at every node.  Hence   *)
(* two planners fed the same requests return the same transforms, and a    *)
(* transform never depends on what was planned before.  The `Defect`       *)
(* constant switches on the cache slips of seeded changes C10-4, C06-1,    *)
(* C10-2 and C10-3; each breaks transparency on some history.              *)
(***************************************************************************)
EXTENDS Naturals, Sequences, FiniteSets, TLC

CONSTANTS Pool,      \* the lengths a client may request
          MaxHist,   \* length of the request histories explored
          Defect     \* "none" | "wrong-key" | "dir-blind" | "mru" | "any-in-range"

Dirs == {"F", "I"}

\* ----- what a length decomposes into ---------------------------------------------------------
RECURSIVE SpfFrom(_, _)
SpfFrom(n, d) == IF d * d > n THEN n ELSE IF n % d = 0 THEN d ELSE SpfFrom(n, d + 1)
IsPrime(n) == n >= 2 /\ SpfFrom(n, 2) = n
Leafy(n) == n <= 7                                                   \* "butterflies"
\* kind of node and child lengths: "leaf" | "prime" (inner n-1, through the cache) | "product" (through the cache) | "split"
Kind(n) == IF Leafy(n) THEN "leaf" ELSE IF IsPrime(n) THEN "prime"
           ELSE IF n % 2 = 0 /\ Leafy(n \div 2) THEN "product" ELSE "split"
Left(n) == SpfFrom(n, 2)
Right(n) == n \div SpfFrom(n, 2)

Leaf(n) == [len |-> n, k |-> "leaf", ch |-> << >>]
Node(n, k, ch) == [len |-> n, k |-> k, ch |-> ch]

\* the recipe a planner with empty caches designs
RECURSIVE Pure(_)
Pure(n) == CASE Kind(n) = "leaf" -> Leaf(n)
             [] Kind(n) = "prime" -> Node(n, "prime", <<Pure(n - 1)>>)
             [] OTHER -> Node(n, Kind(n), <<Pure(Left(n)), Pure(Right(n))>>)

\* ----- design with the recipe cache rc (a function on a set of lengths) ---------------------
RECURSIVE ForLen(_, _), FromFactors(_, _)
\* design_fft_for_len: returns [r |-> recipe, c |-> cache]
ForLen(n, rc) ==
    IF n \in DOMAIN rc THEN [r |-> rc[n], c |-> rc]
    ELSE LET d == FromFactors(n, rc) IN [r |-> d.r, c |-> (n :> d.r) @@ d.c]
\* design_fft_with_factors
FromFactors(n, rc) ==
    CASE Kind(n) = "leaf" -> [r |-> Leaf(n), c |-> rc]
      [] Kind(n) = "prime" -> LET i == ForLen(n - 1, rc) IN [r |-> Node(n, "prime", <<i.r>>), c |-> i.c]
      [] Kind(n) = "product" ->
            LET a == ForLen(Left(n), rc)  b == ForLen(Right(n), a.c) IN [r |-> Node(n, "product", <<a.r, b.r>>), c |-> b.c]
      [] OTHER ->
            \* design_mixed_radix: both halves from their factors.  Defect "wrong-key" (seed C10-4): an added cache
            \* look-up for the halves uses the LEFT length as the key for the right half as well
            LET a == IF Defect = "wrong-key" /\ Left(n) \in DOMAIN rc THEN [r |-> rc[Left(n)], c |-> rc] ELSE FromFactors(Left(n), rc)
                b == IF Defect = "wrong-key" /\ Left(n) \in DOMAIN a.c THEN [r |-> a.c[Left(n)], c |-> a.c] ELSE FromFactors(Right(n), a.c)
            IN [r |-> Node(n, "split", <<a.r, b.r>>), c |-> b.c]

\* ----- build with the algorithm cache ac (a function on a set of <<len, dir>>) ---------------
\* an instance is the recipe with a direction at every node
RECURSIVE Inst(_, _)
Inst(r, d) == [len |-> r.len, k |-> r.k, dir |-> d, ch |-> [i \in DOMAIN r.ch |-> Inst(r.ch[i], d)]]

KeyOf(len, d) == IF Defect = "dir-blind" THEN <<len, "F">> ELSE <<len, d>>     \* seed C06-1: one entry for both directions
RECURSIVE Build(_, _, _)
Build(r, d, ac) ==
    IF KeyOf(r.len, d) \in DOMAIN ac THEN [f |-> ac[KeyOf(r.len, d)], c |-> ac]
    ELSE LET \* seed C10-3: a prime's inner transform may be ANY cached instance that is long enough
             anyInner == {key \in DOMAIN ac : key[2] = d /\ key[1] >= r.len - 1 /\ key[1] <= 2 * r.len}
             c1 == IF Len(r.ch) >= 1
                   THEN (IF Defect = "any-in-range" /\ r.k = "prime" /\ anyInner # {}
                         THEN [f |-> ac[CHOOSE key \in anyInner : TRUE], c |-> ac]
                         ELSE Build(r.ch[1], d, ac))
                   ELSE [f |-> << >>, c |-> ac]
             c2 == IF Len(r.ch) >= 2 THEN Build(r.ch[2], d, c1.c) ELSE [f |-> << >>, c |-> c1.c]
             kids == IF Len(r.ch) = 0 THEN << >> ELSE IF Len(r.ch) = 1 THEN <<c1.f>> ELSE <<c1.f, c2.f>>
             f == [len |-> r.len, k |-> r.k, dir |-> d, ch |-> kids]
         IN [f |-> f, c |-> (KeyOf(r.len, d) :> f) @@ c2.c]

VARIABLES rc, ac, mru, hist, got
vars == <<rc, ac, mru, hist, got>>
Empty == [x \in {} |-> 0]

Init == rc = Empty /\ ac = Empty /\ mru = << >> /\ hist = << >> /\ got = << >>

Plan(n, d) ==
    /\ Len(hist) < MaxHist
    /\ LET ds == ForLen(n, rc)
           \* seed C10-2: "most recently returned instance" fast path that compares the length only
           bs == IF Defect = "mru" /\ mru # << >> /\ mru.len = n THEN [f |-> mru, c |-> ac] ELSE Build(ds.r, d, ac)
       IN /\ rc' = ds.c /\ ac' = bs.c /\ mru' = bs.f
          /\ got' = <<n, d, bs.f>>
    /\ hist' = Append(hist, <<n, d>>)
Next == (\E n \in Pool, d \in Dirs : Plan(n, d)) \/ UNCHANGED vars
Spec == Init /\ [][Next]_vars

\* ----- transparency ------------------------------------------------------------------------------
RecipeCacheSound == \A n \in DOMAIN rc : rc[n] = Pure(n)
AlgoCacheSound   == Defect # "dir-blind" => \A key \in DOMAIN ac : ac[key] = Inst(Pure(key[1]), key[2])
\* what plan_fft(n, d) hands to the client is what a fresh planner would hand out
Transparent == got # << >> => got[3] = Inst(Pure(got[1]), got[2])
Inv == RecipeCacheSound /\ AlgoCacheSound /\ Transparent
=============================================================================
