---------------------------- MODULE CallProtocol ----------------------------
(***************************************************************************)
(* Faithful layer: the call protocol shared by every algorithm             *)
(* (src/fft_helper.rs, src/array_utils.rs validate_and_*, src/common.rs    *)
(* fft_error_x).  The code decides WHETHER a call fails in validate_* and  *)
(* HOW it fails in a second function, fft_error_*, that re-derives the     *)
(* reason from the lengths with its own asserts; if the two ever disagree  *)
(* the call returns normally with chunks untransformed.  Both stages are   *)
(* modelled as separate steps, so that disagreement is a reachable bad     *)
(* state of the model rather than something assumed away.                  *)
(*                                                                         *)
(* Variants: "iter" / "zip" / "zip_mut" (plain, with scratch) and          *)
(* "iter_unroll2x" / "zip_unroll2x" / "zip_mut_unroll2x" (two chunks at a  *)
(* time with a single-chunk tail, no scratch).                             *)
(***************************************************************************)
EXTENDS Arith

Variants == {"iter", "zip", "zip_mut", "iter_unroll2x", "zip_unroll2x", "zip_mut_unroll2x"}
IsZip(v)    == v \in {"zip", "zip_mut", "zip_unroll2x", "zip_mut_unroll2x"}
IsUnroll(v) == v \in {"iter_unroll2x", "zip_unroll2x", "zip_mut_unroll2x"}

(***************************************************************************)
(* The sequence of chunk steps <<width, remaining-before>> that validate_* *)
(* performs for given lengths (what hook H4 reports as Chunk events).      *)
(***************************************************************************)
RECURSIVE PlainChunks(_, _)
PlainChunks(rem, c) == IF rem >= c THEN <<<<1, rem>>>> \o PlainChunks(rem - c, c) ELSE << >>
RECURSIVE PairChunks(_, _)
PairChunks(rem, c) == IF rem >= 2 * c THEN <<<<2, rem>>>> \o PairChunks(rem - 2 * c, c)
                      ELSE IF rem = c THEN <<<<1, rem>>>> ELSE << >>

ExpectedChunks(v, c, len1, len2, scratch, required) ==
    IF c = 0 THEN << >>
    ELSE IF ~IsUnroll(v) /\ scratch < required THEN << >>
    ELSE IF IsZip(v) /\ len1 # len2 THEN << >>
    ELSE IF IsUnroll(v) THEN PairChunks(len1, c) ELSE PlainChunks(len1, c)

\* result of validate_*: "ok" / "err"
RECURSIVE PlainRem(_, _)
PlainRem(rem, c) == IF rem >= c THEN PlainRem(rem - c, c) ELSE rem
RECURSIVE PairRem(_, _)
PairRem(rem, c) == IF rem >= 2 * c THEN PairRem(rem - 2 * c, c) ELSE rem

ValidateResult(v, c, len1, len2, scratch, required) ==
    IF ~IsUnroll(v) /\ scratch < required THEN "err"
    ELSE IF IsZip(v) /\ len1 # len2 THEN "err"
    ELSE IF IsUnroll(v) THEN (LET r == PairRem(len1, c) IN IF r = c \/ r = 0 THEN "ok" ELSE "err")
    ELSE IF PlainRem(len1, c) = 0 THEN "ok" ELSE "err"

\* fft_error_inplace / fft_error_outofplace / fft_error_immut: TRUE iff one of the asserts fires
ErrorFnPanics(v, c, len1, len2, scratch, required) ==
    LET es == IF IsUnroll(v) THEN 0 ELSE required       \* the unroll2x helpers pass (0, 0) for the scratch lengths
        as == IF IsUnroll(v) THEN 0 ELSE scratch
    IN \/ IsZip(v) /\ len1 # len2
       \/ len1 < c
       \/ len1 % c # 0
       \/ as < es

\* the whole helper: "ok" (normal return) or "panic"
HelperOutcome(v, c, len1, len2, scratch, required) ==
    IF c = 0 THEN "ok"                                                   \* chunk_size == 0: early return
    ELSE IF ValidateResult(v, c, len1, len2, scratch, required) = "ok" THEN "ok"
    ELSE IF ErrorFnPanics(v, c, len1, len2, scratch, required) THEN "panic"
    ELSE "swallowed"                                                     \* Err returned but no assert fires

(***************************************************************************)
(* The property's shape predicates (C09) for one helper invocation.        *)
(***************************************************************************)
IllShape(v, c, len1, len2, scratch, required) ==
    /\ c > 0
    /\ \/ len1 > 0 /\ len1 % c # 0
       \/ IsZip(v) /\ len1 # len2
       \/ ~IsUnroll(v) /\ scratch < required
WellShape(v, c, len1, len2, scratch, required) ==
    /\ IF c = 0 THEN len1 = 0 ELSE len1 > 0 /\ len1 % c = 0
    /\ IsZip(v) => len1 = len2
    /\ ~IsUnroll(v) => scratch >= required

\* visited element ranges are exactly the k chunks [i*c, (i+1)*c), each once, in order
RECURSIVE Covered(_, _)
Covered(chunks, c) == IF chunks = << >> THEN 0 ELSE chunks[1][1] * c + Covered(Tail(chunks), c)
ChunksPartition(v, c, len1, len2, scratch, required) ==
    LET ch == ExpectedChunks(v, c, len1, len2, scratch, required) IN
    /\ Covered(ch, c) = len1
    /\ \A i \in DOMAIN ch : ch[i][2] = len1 - Covered(SubSeq(ch, 1, i - 1), c)
=============================================================================
