SPECIFICATION TraceSpec
CONSTANT Prop = "C12"
INVARIANT TraceInv
POSTCONDITION TraceAccepted
CHECK_DEADLOCK FALSE
