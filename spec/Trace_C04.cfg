SPECIFICATION TraceSpec
CONSTANT Prop = "C04"
INVARIANT TraceInv
POSTCONDITION TraceAccepted
CHECK_DEADLOCK FALSE
