------------------------------- MODULE Exec -------------------------------
(***************************************************************************)
(* Executable models of RustFFT's portable algorithms over the exact ring  *)
(* R = GF(p)[i]/(i^2+1) of Field.tla: the index maps, twiddle indices and  *)
(* conjugation tricks are transcribed from the code, the arithmetic is     *)
(* exact, and the claim checked by TLC is  Run(t, x) = Dft(x)  for every   *)
(* tree t of the bounded universe and every input of the impulse basis     *)
(* (the circuit is GF(p)-linear, so the basis decides all inputs).         *)
(*                                                                         *)
(*  MixedRadix      six-step: transpose, column FFTs, twiddles w^(x*y),    *)
(*                  transpose, row FFTs, transpose     (mixed_radix.rs)    *)
(*  GoodThomas      the INCREMENTAL input / output index computations of   *)
(*                  reindex_input / reindex_output (good_thomas_algorithm) *)
(*  Raders          primitive-root orbit permutation, the conj-multiply-   *)
(*                  conj convolution trick, DC fix-ups (raders_algorithm)  *)
(*  Bluesteins      chirp index i^2 mod 2n, zero fill, mirrored kernel     *)
(*                  (bluesteins_algorithm.rs, twiddles.rs)                 *)
(*  Radix4/RadixN   digit-reversed transpose + layered cross-FFTs with the *)
(*                  packed per-layer twiddle table   (radix4.rs, radixn.rs)*)
(*  Dft/Butterfly   primitive DFTs                                         *)
(*  AvxRadix        MixedRadix{2..16}xnAvx at vector-register granularity:  *)
(*                  column groups of W lanes, the partial remainder group,  *)
(*                  twiddle-chunk indexing, packed transposes               *)
(*  AvxRaders       RadersAvx2: multiplied-forward gather indexes, inverse  *)
(*                  output mapping table, 2-element remainders              *)
(*  AvxBluesteins   BluesteinsAvx: padded twiddle vectors, unconditional    *)
(*                  remainder chunk, whole-vector zero fill                 *)
(*                                                                         *)
(* A tree node is [k, len, fs, ch]: kind, declared length (leaves and      *)
(* Bluestein), radix factors (RadixN/Radix4: outermost last), children.    *)
(***************************************************************************)
EXTENDS Field, Sequences, FiniteSets

CONSTANTS P,        \* prime modulus, P = 1 (mod BigN)
          BigN,     \* every transform length of the universe (and 2n for Bluestein) divides BigN
          G         \* <<re, im>>: image of exp(-2 pi i / BigN), a primitive BigN-th root of unity of norm 1 in R

\* exp(-+ 2 pi i j / n): forward direction uses G, inverse its conjugate
Tw(j, n, inv) == LET tw0 == CPow(G, (BigN \div n) * (j % n), P) IN IF inv THEN CConj(tw0, P) ELSE tw0

RECURSIVE Flatten(_)
Flatten(ss) == IF ss = << >> THEN << >> ELSE Head(ss) \o Flatten(Tail(ss))

\* transpose::transpose(input, output, width, height): output[x*height + y] = input[y*width + x]
Transpose(x, width, height) == [i \in 1..(width * height) |-> x[((i - 1) % height) * width + ((i - 1) \div height) + 1]]

\* TLC evaluates [i \in S |-> e] lazily, element by element and again on every application; concatenation with the empty
\* sequence turns it into an explicit tuple once (a pure evaluation-strategy device, no effect on the meaning)
Force(f) == f \o << >>
ZeroSeq(n) == [i \in 1..n |-> CZero]
InvOf(m) == PowMod(m % P, P - 2, P)                         \* 1/m in GF(p)

NaiveDft(x, inv) == IF Len(x) = 0 THEN << >> ELSE Dft(x, Tw(1, Len(x), inv), P) \o << >>

\* ----- Good-Thomas index maps, transcribed step by step ---------------------------------------
\* reindex_input: destination index of every source element, in source order
RECURSIVE GtInWalk(_, _, _, _, _, _)
\* s = source index, c = column within the row, d = current destination index, inc = increments_until_cycle of this row
GtInWalk(s, c, d, inc, width, len) ==
    IF s = len THEN << >>
    ELSE LET d1 == IF inc < width /\ c = inc THEN d - len ELSE d IN           \* the cycle: destination_index -= len
         IF c = width - 1
         THEN LET dn == d1 + (width + 1) - width                               \* end of row: += (width+1), then -= width
                  incn == 1 + (len - dn) \div (width + 1)
              IN <<d1>> \o GtInWalk(s + 1, 0, dn, incn, width, len)
         ELSE <<d1>> \o GtInWalk(s + 1, c + 1, d1 + (width + 1), inc, width, len)
GtInputDest(width, height) == GtInWalk(0, 0, 0, 1 + (width * height) \div (width + 1), width, width * height)
\* a destination index can run past len inside a row only when the row has no cycle; the code would index out of bounds then
GtInputInRange(width, height) == \A i \in DOMAIN GtInputDest(width, height) : GtInputDest(width, height)[i] \in 0..(width * height - 1)
GtReindexInput(x, width, height) ==
    LET dest == GtInputDest(width, height) IN
    [j \in 1..Len(x) |-> x[CHOOSE s \in 1..Len(x) : dest[s] = j - 1]]

\* reindex_output: for chunk y of the source (height elements each), destination indices in source order
GtOutChunk(y, width, height) ==
    LET q == (y * height) \div width  r == (y * height) % width  startX == height - q IN
    [i \in 1..height |->
        \* source element x = i-1 goes to position: elements startX..height-1 first, then 0..startX-1
        LET x == i - 1
            rank == IF x >= startX THEN x - startX ELSE (height - startX) + x
        IN r + rank * width]
GtReindexOutput(x, width, height) ==
    LET dest == Flatten([y \in 1..width |-> GtOutChunk(y - 1, width, height)]) IN
    [j \in 1..Len(x) |-> x[CHOOSE s \in 1..Len(x) : dest[s] = j - 1]]
GtOutputIsPermutation(width, height) ==
    LET dest == Flatten([y \in 1..width |-> GtOutChunk(y - 1, width, height)]) IN
    {dest[i] : i \in DOMAIN dest} = 0..(width * height - 1)

\* ----- Rader helpers ---------------------------------------------------------------------------
RECURSIVE SmallestRoot(_, _)
IsPrimRoot(g, p) == \A q \in {d \in 2..(p - 1) : (p - 1) % d = 0 /\ IsPrime(d)} : PowMod(g, (p - 1) \div q, p) # 1
SmallestRoot(g, p) == IF IsPrimRoot(g, p) THEN g ELSE SmallestRoot(g + 1, p)
PrimRoot(p) == IF p = 2 THEN 1 ELSE SmallestRoot(2, p)
ModInv(a, p) == PowMod(a, p - 2, p)

\* ----- digit-reversed transpose (array_utils.rs bitreversed_transpose) -----------------------------------------
RECURSIVE RevDigits(_, _, _)
RevDigits(v, d, digits) == IF digits = 0 THEN 0 ELSE (v % d) * Pow(d, digits - 1) + RevDigits(v \div d, d, digits - 1)
RECURSIVE LogD(_, _)
LogD(v, d) == IF v = 1 THEN 0 ELSE 1 + LogD(v \div d, d)
\* output[y + rev(x) * height] = input[x + y * width]
BitRevTranspose(x, height, d) ==
    LET width == Len(x) \div height  digits == LogD(width, d) IN
    [o \in 1..Len(x) |->
        LET y == (o - 1) % height  xr == (o - 1) \div height  xx == RevDigits(xr, d, digits) IN x[xx + y * width + 1]]

\* ----- AVX kernels at vector-register granularity (avx_mixed_radix.rs, avx_raders.rs, avx_bluesteins.rs) -----
\* W = COMPLEX_PER_VECTOR (4 for f32, 2 for f64).  Every loop over full vectors and every remainder branch of the
\* code is transcribed as the set of stores <<destination index, value>> it performs; Scatter rebuilds the
\* buffer and marks a cell that is never written, or written with two different values, as poisoned.
Poison == <<"poison">>
Scatter(stores, n) == Force([o \in 1..n |-> LET m == {s \in stores : s[1] = o - 1} IN
                                            IF Cardinality(m) = 1 THEN (CHOOSE s \in m : TRUE)[2] ELSE Poison])
StoresInRange(stores, n) == \A s \in stores : s[1] \in 0..(n - 1)

\* perform_column_butterflies: R rows of L columns; column groups of W lanes plus one partial group.
\* twiddle table (mixedradix_gen_data): chunk xx in 0..ntc-1, row y in 1..R-1, lane l: compute_twiddle(y*(xx*W+l), n)
AvxColumnStores(x, R, L, W, inv) ==
    LET n == R * L  q == L \div W  rem == L % W
        ntc == q + (IF rem > 0 THEN 1 ELSE 0)                       \* quotient + div_ceil(remainder, W)
        Group(base, cnt, twc) ==
            LET out == Force([l1 \in 1..cnt |-> NaiveDft([i \in 1..R |-> x[base + L * (i - 1) + l1]], inv)]) IN
            {<<base + L * i + l, IF i = 0 THEN out[l + 1][1] ELSE CMul(Tw(i * (twc * W + l), n, inv), out[l + 1][i + 1], P)>> :
                i \in 0..(R - 1), l \in 0..(cnt - 1)}
    IN UNION {Group(c * W, W, c) : c \in 0..(q - 1)}
       \cup (IF rem > 0 THEN Group(q * W, rem, ntc - 1) ELSE {})      \* final_twiddle_chunk = last chunk of the table

\* transpose (mixedradix_transpose!): input R x L, output L x R; packed transposes are lane-major: position p of the
\* packed group holds lane p \div R of row p % R
AvxTransposeStores(x, R, L, W) ==
    LET q == L \div W  rem == L % W
        ibase == q * W  obase == q * W * R
        Packed(ib, p) == x[ib + (p \div R) + L * (p % R) + 1]
        full == {<<c * W * R + p, Packed(c * W, p)>> : c \in 0..(q - 1), p \in 0..(W * R - 1)}
        fullcnt == (3 * R) \div W
        tail == CASE rem = 0 -> {}
                  [] rem = 1 -> {<<obase + i, x[ibase + L * i + 1]>> : i \in 0..(R - 1)}
                  [] rem = 2 -> {<<obase + 2 * idx + e, Packed(ibase, 2 * idx + e)>> : idx \in 0..(R - 1), e \in 0..1}
                  [] rem = 3 -> {<<obase + pp, Packed(ibase, pp)>> : pp \in 0..(fullcnt * W - 1)} \cup
                                {<<obase + fullcnt * W + e, Packed(ibase, fullcnt * W + e)>> : e \in 0..(((3 * R) % W) - 1)}
    IN full \cup tail

\* RadersAvx2::prepare_raders: the gather indexes are advanced by a vectorised multiply-mod; lane l of step c holds
\* g^(l+1) * (g^W)^c mod n.  The remainder is gathered only when exactly two elements are left.
AvxRadersGather(x, W, g) ==
    LET n == Len(x)  m == n - 1  q == m \div W  rem == m % W
        step == PowMod(g, W, n)
        Idx(c, l) == (PowMod(g, l + 1, n) * PowMod(step, c, n)) % n
    IN {<<c * W + l, x[Idx(c, l) + 1]>> : c \in 0..(q - 1), l \in 0..(W - 1)}
       \cup (IF rem = 2 THEN {<<q * W + l, x[Idx(q, l) + 1]>> : l \in 0..1} ELSE {})
\* output_mapping_inverse[gi^i] = i for i = 1..n-1 (array of 1 + ceil(n/W)*W zero-initialised entries); chunks_exact(W)
\* of mapping[1..]; finalize gathers input[mapping] for full chunks, and the LAST mapping chunk's low half when two are left
AvxRadersScatter(src, n, W, gi) ==
    LET m == n - 1  q == m \div W  rem == m % W
        msize == 1 + ((n + W - 1) \div W) * W
        pw == [i \in 1..(n - 1) |-> PowMod(gi, i, n)]
        map == [j \in 0..(msize - 1) |-> IF \E i \in 1..(n - 1) : pw[i] = j THEN CHOOSE i \in 1..(n - 1) : pw[i] = j ELSE 0]
        nchunks == (msize - 1) \div W
        Chunk(c, l) == map[1 + c * W + l]
    IN {<<c * W + l, CConj(src[Chunk(c, l) + 1], P)>> : c \in 0..(q - 1), l \in 0..(W - 1)}
       \cup (IF rem = 2 THEN {<<q * W + l, CConj(src[Chunk(nchunks - 1, l) + 1], P)>> : l \in 0..1} ELSE {})

\* pairwise_complex_mul_conjugated: out[i] = conj(in[i]) * mult[i]; mult is stored in ceil(m/W) vectors, the remainder uses the LAST vector
AvxPairwiseConjMul(a, mult, W) ==
    LET m == Len(a)  q == m \div W  rem == m % W  nv == (m + W - 1) \div W IN
    Force([i \in 1..m |-> IF i <= q * W THEN CMul(CConj(a[i], P), mult[i], P)
                          ELSE CMul(CConj(a[i], P), mult[(nv - 1) * W + (i - q * W)], P)])

\* BluesteinsAvx: twiddle table padded with zeros to ceil(n/W) vectors; prepare = (#vectors - 1) full chunks + an
\* unconditional remainder chunk of 1..W elements + zero fill of the rest of the inner buffer in whole vectors
AvxBluesteinPrepare(x, tw, m, W) ==
    LET n == Len(x)  nvec == (n + W - 1) \div W  cc == nvec - 1  rem == n - cc * W
        TwPad(i) == IF i < n THEN tw[i + 1] ELSE CZero
        In(i, cnt, base) == IF i - base < cnt THEN x[i + 1] ELSE CZero          \* partial loads zero-extend
    IN {<<i, CMul(x[i + 1], tw[i + 1], P)>> : i \in 0..(cc * W - 1)}
       \cup {<<cc * W + l, CMul(TwPad(cc * W + l), In(cc * W + l, rem, cc * W), P)>> : l \in 0..(W - 1)}
       \cup {<<v * W + l, CZero>> : v \in (cc + 1)..((m \div W) - 1), l \in 0..(W - 1)}
AvxBluesteinFinalize(inner, tw, n, W) ==
    LET nvec == (n + W - 1) \div W  cc == nvec - 1  rem == n - cc * W IN
    {<<i, CMul(CConj(inner[i + 1], P), tw[i + 1], P)>> : i \in 0..(cc * W - 1)}
    \cup {<<cc * W + l, CMul(CConj(inner[cc * W + l + 1], P), tw[cc * W + l + 1], P)>> : l \in 0..(rem - 1)}

\* ----- the interpreter ---------------------------------------------------------------------------
RECURSIVE Run(_, _, _)
RunChunks(t, x, n, inv) == Flatten([c \in 1..(Len(x) \div n) |-> Run(t, SubSeq(x, (c - 1) * n + 1, c * n), inv)])

\* one radix-r cross-FFT layer over data of length r*cols: rows are strided by `cols`, twiddle (col*j) of size r*cols
Layer(data, r, cols, inv) ==
    LET n == r * cols IN
    [o \in 1..n |->
        LET col == (o - 1) % cols  ko == (o - 1) \div cols
            vals == [j \in 1..r |-> CMul(data[col + (j - 1) * cols + 1], Tw(col * (j - 1), n, inv), P)]
        IN NaiveDft(vals, inv)[ko + 1]]
RECURSIVE Layers(_, _, _, _)
\* apply the cross-FFT layers fs (innermost first) to buffer x whose blocks of `cur` elements are already transformed
Layers(x, fs, cur, inv) ==
    IF fs = << >> THEN x
    ELSE LET r == Head(fs)  blk == cur * r
             y == Flatten([c \in 1..(Len(x) \div blk) |-> Layer(SubSeq(x, (c - 1) * blk + 1, c * blk), r, cur, inv)])
         IN Layers(y, Tail(fs), blk, inv)
\* mixed-radix digit reversal used by RadixN (factor_transpose): digits of the column index in the order of fs
Reverse(sq) == [i \in 1..Len(sq) |-> sq[Len(sq) - i + 1]]
RECURSIVE MixedRev(_, _)
MixedRev(v, fs) == IF fs = << >> THEN 0
                   ELSE LET r == Head(fs) rest == Tail(fs) IN (v % r) * SeqProduct(rest) + MixedRev(v \div r, rest)

Run(t, x, inv) ==
    LET n == Len(x) IN
    CASE t.k \in {"Dft", "Butterfly"} -> NaiveDft(x, inv)
      [] t.k = "MixedRadix" ->
            LET w == t.ch[1].len  h == t.ch[2].len
                s1 == Transpose(x, w, h)
                s2 == RunChunks(t.ch[2], s1, h, inv)
                s3 == [i \in 1..n |-> CMul(s2[i], Tw(((i - 1) \div h) * ((i - 1) % h), n, inv), P)]
                s4 == Transpose(s3, h, w)
                s5 == RunChunks(t.ch[1], s4, w, inv)
            IN Transpose(s5, w, h)
      [] t.k = "GoodThomas" ->
            \* the constructor swaps the children so that width <= height
            LET a == IF t.ch[1].len > t.ch[2].len THEN t.ch[2] ELSE t.ch[1]
                b == IF t.ch[1].len > t.ch[2].len THEN t.ch[1] ELSE t.ch[2]
                w == a.len  h == b.len
                s1 == GtReindexInput(x, w, h)
                s2 == RunChunks(a, s1, w, inv)
                s3 == Transpose(s2, w, h)
                s4 == RunChunks(b, s3, h, inv)
            IN GtReindexOutput(s4, w, h)
      [] t.k = "GoodThomasSmall" ->
            \* GoodThomasAlgorithmSmall: precomputed CRT / Ruritanian maps (constructor), width FFTs first
            LET w == t.ch[1].len  h == t.ch[2].len
                winv == CHOOSE v \in 0..Max(h - 1, 0) : (w * v) % h = 1 % h
                hinv == CHOOSE v \in 0..Max(w - 1, 0) : (h * v) % w = 1 % w
                s1 == [i \in 1..n |-> x[((((i - 1) % w) * h + ((i - 1) \div w) * w) % n) + 1]]
                s2 == RunChunks(t.ch[1], s1, w, inv)
                s3 == Transpose(s2, w, h)
                s4 == RunChunks(t.ch[2], s3, h, inv)
                omap == [i \in 1..n |-> (((i - 1) \div h) * h * hinv + ((i - 1) % h) * w * winv) % n]
            IN [j \in 1..n |-> s4[CHOOSE i \in 1..n : omap[i] = j - 1]]
      [] t.k = "Raders" ->
            LET m == n - 1
                g == PrimRoot(n)  gi == ModInv(g, n)
                \* constructor: kernel = InnerFFT( twiddle(gi^j) / m )
                kin == [j \in 1..m |-> CScale(Tw(PowMod(gi, j - 1, n), n, inv), InvOf(m), P)]
                kern == Run(t.ch[1], kin, inv)
                \* gather by the orbit of g: scratch[j] = x[g^(j+1)]
                s1 == [j \in 1..m |-> x[PowMod(g, j, n) + 1]]
                s2 == Run(t.ch[1], s1, inv)
                first == CAdd(x[1], s2[1], P)
                s3 == [j \in 1..m |-> CConj(CMul(s2[j], kern[j], P), P)]
                s4 == [s3 EXCEPT ![1] = CAdd(s3[1], CConj(x[1], P), P)]
                s5 == Run(t.ch[1], s4, inv)
            IN [o \in 1..n |-> IF o = 1 THEN first
                               ELSE CConj(s5[CHOOSE j \in 1..m : PowMod(gi, j, n) = o - 1], P)]
      [] t.k = "Bluesteins" ->
            LET m == t.ch[1].len
                tw == [i \in 1..n |-> Tw(((i - 1) * (i - 1)) % (2 * n), 2 * n, inv)]
                \* constructor: mirrored, scaled chirp of the OPPOSITE direction, transformed once
                kin == [i \in 1..m |-> IF i <= n THEN CScale(CConj(tw[i], P), InvOf(m), P)
                                       ELSE IF m - (i - 1) <= n - 1 THEN CScale(CConj(tw[m - (i - 1) + 1], P), InvOf(m), P)
                                       ELSE CZero]
                mult == Run(t.ch[1], kin, inv)
                s1 == [i \in 1..m |-> IF i <= n THEN CMul(x[i], tw[i], P) ELSE CZero]
                s2 == Run(t.ch[1], s1, inv)
                s3 == [i \in 1..m |-> CConj(CMul(s2[i], mult[i], P), P)]
                s4 == Run(t.ch[1], s3, inv)
            IN [i \in 1..n |-> CMul(CConj(s4[i], P), tw[i], P)]
      [] t.k = "Radix4" ->
            \* new_with_base(k, base): bit-reversed transpose (radix 4), base FFTs, then k radix-4 layers
            LET base == t.ch[1].len
                s1 == IF n = base THEN x ELSE BitRevTranspose(x, base, 4)
                s2 == RunChunks(t.ch[1], s1, base, inv)
            IN Layers(s2, t.fs, base, inv)
      [] t.k = "Radix3" ->
            \* radix3.rs new_with_base(k, base): digit-reversed transpose (radix 3), base FFTs, then k radix-3 layers
            LET base == t.ch[1].len
                s1 == IF n = base THEN x ELSE BitRevTranspose(x, base, 3)
                s2 == RunChunks(t.ch[1], s1, base, inv)
            IN Layers(s2, t.fs, base, inv)
      [] t.k = "RadixN" ->
            LET base == t.ch[1].len
                width == n \div base
                \* factor_transpose: output[y + rev(x)*base] = input[x + y*width], rev = mixed-radix digit reversal
                s1 == [o \in 1..n |-> LET y == (o - 1) % base xr == (o - 1) \div base IN
                                      x[(CHOOSE xx \in 0..(width - 1) : MixedRev(xx, Reverse(t.fs)) = xr) + y * width + 1]]
                s2 == RunChunks(t.ch[1], s1, base, inv)
            IN Layers(s2, t.fs, base, inv)
      [] t.k = "AvxRadix" ->
            \* MixedRadix{R}xnAvx: column butterflies (+twiddles) in place, row FFTs out of place, packed transpose back
            LET R == t.fs[1]  L == t.ch[1].len
                st1 == AvxColumnStores(x, R, L, t.w, inv)
                s1 == IF StoresInRange(st1, n) THEN Scatter(st1, n) ELSE [i \in 1..n |-> Poison]
                s2 == RunChunks(t.ch[1], s1, L, inv)
                st3 == AvxTransposeStores(s2, R, L, t.w)
            IN IF StoresInRange(st3, n) THEN Scatter(st3, n) ELSE [i \in 1..n |-> Poison]
      [] t.k = "AvxRaders" ->
            LET m == n - 1  W == t.w
                g == PrimRoot(n)  gi == ModInv(g, n)
                \* constructor: twiddle_input = 1, then *= gi; kernel = conj(InnerFFT(twiddles / m)), stored in vectors
                kin == Force([j \in 1..m |-> CScale(Tw(PowMod(gi, j - 1, n), n, inv), InvOf(m), P)])
                kfft == Force(Run(t.ch[1], kin, inv))
                kern == Force([j \in 1..m |-> CConj(kfft[j], P)])
                stg == AvxRadersGather(x, W, g)
                s1 == Scatter(stg, m)
                s2 == Force(Run(t.ch[1], s1, inv))
                first == CAdd(x[1], s2[1], P)
                \* conj(a) * conj(kernel) = conj(a * kernel)
                s3 == AvxPairwiseConjMul(s2, kern, W)
                s4 == [s3 EXCEPT ![1] = CAdd(s3[1], CConj(x[1], P), P)]
                s5 == Force(Run(t.ch[1], s4, inv))
                src == <<x[1]>> \o s5                                  \* scratch2: [0] = first input, [1..] = inner result
                sto == AvxRadersScatter(src, n, W, gi)
                tail == Scatter(sto, m)
            IN [o \in 1..n |-> IF o = 1 THEN first ELSE tail[o - 1]]
      [] t.k = "AvxBluesteins" ->
            LET m == t.ch[1].len  W == t.w
                tw == Force([i \in 1..n |-> Tw(((i - 1) * (i - 1)) % (2 * n), 2 * n, inv)])
                \* constructor: fill_bluesteins_twiddles(opposite direction), scaled, mirrored to the end of the buffer
                kin0 == Force([i \in 1..m |-> IF i <= n THEN CScale(CConj(tw[i], P), InvOf(m), P) ELSE CZero])
                kin == Force([i \in 1..m |-> IF i <= n THEN kin0[i]
                                             ELSE IF m - (i - 1) \in 1..(n - 1) THEN kin0[m - (i - 1) + 1] ELSE CZero])
                mfft == Force(Run(t.ch[1], kin, inv))
                mult == Force([i \in 1..m |-> CConj(mfft[i], P)])                     \* stored pre-conjugated
                st1 == AvxBluesteinPrepare(x, tw, m, W)
                s1 == IF StoresInRange(st1, m) THEN Scatter(st1, m) ELSE [i \in 1..m |-> Poison]
                s2 == Force(Run(t.ch[1], s1, inv))
                s3 == Force([i \in 1..m |-> CMul(CConj(s2[i], P), mult[i], P)])
                s4 == Force(Run(t.ch[1], s3, inv))
            IN Scatter(AvxBluesteinFinalize(s4, tw, n, W), n)

Impulse(n, j) == [i \in 1..n |-> IF i = j + 1 THEN COne ELSE CZero]
\* column j of the DFT matrix
DftColumn(n, j, inv) == [k \in 1..n |-> Tw(j * (k - 1), n, inv)]
=============================================================================
