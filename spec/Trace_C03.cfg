SPECIFICATION TraceSpec
CONSTANT Prop = "C03"
INVARIANT TraceInv
POSTCONDITION TraceAccepted
CHECK_DEADLOCK FALSE
