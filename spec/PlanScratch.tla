---------------------------- MODULE PlanScratch ----------------------------
(***************************************************************************)
(* The scratch plumbing of Scratch.tla composed over whole plan trees      *)
(* (Recipe.tla flat trees as produced by the faithful planner models):     *)
(* the three advertised lengths of every node are derived bottom-up by the *)
(* constructor formulas, and a plan is scratch-sound when                  *)
(*   - at every node the advertised lengths suffice for every child call   *)
(*     of every entry point and every split is in range (C03, C08),        *)
(*   - the constructor preconditions that mention scratch hold: the *Small *)
(*     algorithms' asserts on their children, RadersAvx2's implicit        *)
(*     requirement on its inner transform (C04, C12),                      *)
(*   - the lengths advertised by the ROOT obey the linear bound 12 n + 64  *)
(*     (C05).                                                              *)
(***************************************************************************)
EXTENDS PlannerAvx, Scratch

\* the node kinds of a plan tree mapped to the kinds of Scratch.tla; avx2 decides which Rader's algorithm an AVX plan builds
SKind(k, avx2) == CASE k = "RadersBase" -> IF avx2 THEN "AvxRaders" ELSE "RadersAlgorithm"
                    [] k = "BluesteinsBase" -> "AvxBluesteins"
                    [] OTHER -> k

RECURSIVE NodeScr(_, _, _)
NodeChildren(t, i, avx2) == [j \in DOMAIN t[i].ch |-> [len |-> NodeLen(t, t[i].ch[j]), scr |-> NodeScr(t, t[i].ch[j], avx2)]]
NodeScr(t, i, avx2) == Scr(SKind(t[i].k, avx2), NodeLen(t, i), NodeChildren(t, i, avx2))

NodeScratchOk(t, i, avx2) ==
    LET k == SKind(t[i].k, avx2)  ch == NodeChildren(t, i, avx2) IN
    /\ Suffices(k, NodeLen(t, i), ch)
    /\ k \in {"MixedRadixSmall", "GoodThomasAlgorithmSmall"} => SmallPre(ch)
    /\ k = "AvxRaders" => AvxRadersPre(ch)

ScratchBoundOk12(n, scr) == \A e \in 1..3 : scr[e] <= 12 * n + 64

PlanScratchOk(t, avx2) ==
    /\ \A i \in DOMAIN t : NodeScratchOk(t, i, avx2)
    /\ ScratchBoundOk12(TreeLen(t), NodeScr(t, Len(t), avx2))
=============================================================================
