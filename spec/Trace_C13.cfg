SPECIFICATION TraceSpec
CONSTANT Prop = "C13"
INVARIANT TraceInv
POSTCONDITION TraceAccepted
CHECK_DEADLOCK FALSE
