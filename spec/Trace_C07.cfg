SPECIFICATION TraceSpec
CONSTANT Prop = "C07"
INVARIANT TraceInv
POSTCONDITION TraceAccepted
CHECK_DEADLOCK FALSE
