SPECIFICATION Spec
CONSTANTS
  Lens = {1, 2, 3, 4, 5}
  Needs = {0, 1, 3, 5, 9, 17, 41}
INVARIANT Inv
CHECK_DEADLOCK FALSE
