SPECIFICATION Spec
CONSTANTS
  Lens = {1, 2, 3, 4, 5, 7, 9}
  Needs = {0, 1, 3, 9, 40}
  BlueZeroTo = "head"
INVARIANT Pure
CHECK_DEADLOCK FALSE
