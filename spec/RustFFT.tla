------------------------------- MODULE RustFFT -------------------------------
(***************************************************************************)
(* Property-layer specification of RustFFT's public API.                   *)
(*                                                                         *)
(* State is what a client can hold: planners, the transforms they          *)
(* returned, calls in flight.  Every action is one API call boundary (or   *)
(* one hook-reported internal step between two boundaries).  The planner   *)
(* is deliberately nondeterministic here: it may return ANY transform, the *)
(* guards of the actions are exactly what properties C01..C15 demand of    *)
(* whatever was returned and observed.  `Prop` selects which property's    *)
(* guards are active, so that each registered check decides its own        *)
(* property only.  Faithful models of today's heuristics live in           *)
(* PlannerScalar / PlannerSse / PlannerAvx / CallProtocol / Exec and only  *)
(* ever produce MODEL-DRIFT.                                               *)
(***************************************************************************)
EXTENDS PlannerAvx, Scratch, Ops, Field, TLC

CONSTANT Prop      \* "C01" .. "C15", or "ALL"

VARIABLES
    cfg,        \* [features |-> SUBSET {"avx","sse"}, mask |-> 0..15]  compiled-in features, CPU capability bits
    planners,   \* pid -> [kind, elem, backend, alive]
    cache,      \* pid -> set of <<len, dir>> keys inserted into that planner's algorithm cache
    insts,      \* iid -> [pid, kind, elem, n, dir, len, rdir, scr]   transforms handed to the client
    planning,   \* << >> or <<[pid, n, dir]>> : the plan_fft call in progress
    pending,    \* cid -> [iid, entry, data, out, scratch, inh]        calls in flight
    refs,       \* reference outputs: <<key, in-hash>> -> out-hash
    drift       \* number of faithful-layer mismatches seen (never a violation)

vars == <<cfg, planners, cache, insts, planning, pending, refs, drift>>

Kinds     == {"auto", "scalar", "sse", "avx"}
Elems     == {"f32", "f64", "fp", "dd", "cnt", "wide"}
SimdElems == {"f32", "f64"}
Dirs      == {"F", "I"}
Entries   == {"process", "inplace", "oop", "immut"}

\* faithful-layer mismatch: counted and printed, never a violation
DriftIf(mismatch, what) == IF mismatch THEN (IF PrintT(<<"DRIFT", what>>) THEN 1 ELSE 1) ELSE 0

On(p) == Prop = p \/ Prop = "ALL"
OnAny(S) == Prop \in S \/ Prop = "ALL"

-----------------------------------------------------------------------------
(* C13 / C14: which planner constructors succeed                           *)
BitSse41 == 1
BitAvx   == 2
BitFma   == 4
BitAvx2  == 8
HasBit(mask, b) == (mask \div b) % 2 = 1

AvxAvail(c, elem) == "avx" \in c.features /\ HasBit(c.mask, BitAvx) /\ HasBit(c.mask, BitFma) /\ elem \in SimdElems
SseAvail(c, elem) == "sse" \in c.features /\ HasBit(c.mask, BitSse41) /\ elem \in SimdElems

ExpectedNew(kind, elem, c) ==
    CASE kind = "avx" -> IF AvxAvail(c, elem) THEN "ok" ELSE "err"
      [] kind = "sse" -> IF SseAvail(c, elem) THEN "ok" ELSE "err"
      [] OTHER -> "ok"

ExpectedBackend(kind, elem, c) ==
    IF kind = "auto"
    THEN IF AvxAvail(c, elem) THEN "avx" ELSE IF SseAvail(c, elem) THEN "sse" ELSE "scalar"
    ELSE kind

-----------------------------------------------------------------------------
(* C09: call shapes                                                        *)
TwoBuf(entry) == entry \in {"oop", "immut"}
ScratchIdx(entry) == CASE entry \in {"process", "inplace"} -> 1 [] entry = "oop" -> 2 [] OTHER -> 3

Well(c, n, adv) ==
    /\ IF n = 0 THEN c.data = 0 ELSE c.data > 0 /\ c.data % n = 0
    /\ TwoBuf(c.entry) => c.out = c.data
    /\ c.entry # "process" => c.scratch >= adv

Ill(c, n, adv) ==
    /\ n > 0
    /\ \/ c.data > 0 /\ c.data % n # 0
       \/ TwoBuf(c.entry) /\ c.out # c.data
       \/ c.entry # "process" /\ c.scratch < adv

Chunks(c, n) == IF n = 0 THEN 0 ELSE c.data \div n

-----------------------------------------------------------------------------
(* Tolerances (DESIGN.md 3.4): units of 2^-10 eps                          *)
TolQ(elem) == IF elem = "f32" THEN 2097152 ELSE 67108864     \* 2^-12 resp. 2^-36 relative L2
LogBoundQ(n) == 16 * Log2Q10(2 * Max(n, 1))                  \* 16 eps log2(2n)

Sign(dir) == IF dir = "F" THEN 1 ELSE -1

(* Observation predicates.  o is one observation record of a completed call c on instance inst. *)
PhaseOk(o, inst) ==
    /\ o.mag_ok
    /\ Len(o.phase) = inst.n
    /\ \A k \in 0..(inst.n - 1) : o.phase[k + 1] = (-(Sign(inst.dir)) * o.j * k) % inst.n

ErrOk(o, inst) ==
    LET bound == IF o.ref = "dft" /\ (Prop \in {"C02", "C10", "C13"} \/ inst.elem = "dd")
                 THEN LogBoundQ(inst.n) ELSE TolQ(inst.elem)
    IN  o.err_q <= bound

OpsOk(o, inst) == /\ o.a = o.b
                  /\ inst.n >= 2 => 16 * o.a <= inst.n * Log2Q10(inst.n)      \* ops <= 64 n log2 n

ObsOk(o, c, inst) ==
    CASE o.kind = "phase"       -> PhaseOk(o, inst)
      [] o.kind = "err"         -> ErrOk(o, inst)
      [] o.kind = "exact"       -> o.match
      [] o.kind = "exact_small" -> o.n = inst.n /\ SmallDftOk(o.p, o.n, o.w, o.x, o.y)
      [] o.kind = "bits"        -> o.equal /\ o.finite
      [] o.kind = "isolation"   -> \A ch \in 1..Len(o.finite) : o.finite[ch] = (ch = o.clean)
      [] o.kind = "unchanged"   -> o.unchanged
      [] o.kind = "transformed" -> \A ch \in 1..Len(o.by_chunk) : o.by_chunk[ch]
      [] o.kind = "ops"         -> OpsOk(o, inst)
      [] o.kind = "identity"    -> o.equal
      [] o.kind = "hash"        -> TRUE          \* judged against refs in CallEnd
      [] OTHER -> FALSE

ObsKinds(obs) == {obs[i].kind : i \in DOMAIN obs}

\* what an accepted completed call must have been observed for, per property (anti-vacuity)
RequiredOk(c, inst, outcome, obs) ==
    LET ks == ObsKinds(obs) IN
    /\ Prop = "C01" /\ outcome = "ok" /\ inst.n > 0 => ks \cap {"phase", "err", "exact", "exact_small"} # {}
    /\ Prop = "C02" /\ outcome = "ok" /\ inst.n > 0 => \E i \in DOMAIN obs : obs[i].kind = "err" /\ obs[i].ref = "dft"
    /\ Prop = "C06" /\ outcome = "ok" /\ inst.n > 0 => ks \cap {"err", "exact"} # {}
    /\ Prop = "C07" /\ outcome = "ok" /\ inst.n > 0 => ks \cap {"err", "isolation", "exact", "bits"} # {}
    /\ Prop = "C08" /\ outcome = "ok" /\ inst.n > 0 => "bits" \in ks
    /\ Prop = "C09" /\ outcome = "ok" /\ inst.n > 0 /\ c.data > 0 => "transformed" \in ks
    /\ Prop = "C11" /\ outcome = "ok" /\ inst.n > 0 => "hash" \in ks
    /\ Prop = "C15" /\ c.entry = "immut" => "unchanged" \in ks

-----------------------------------------------------------------------------
Init ==
    /\ cfg = [features |-> {"avx", "sse"}, mask |-> 15]
    /\ planners = << >>
    /\ cache = << >>
    /\ insts = << >>
    /\ planning = << >>
    /\ pending = << >>
    /\ refs = << >>
    /\ drift = 0

\* a new scenario starts (fresh process state); drift is cumulative
Reset(features, mask) ==
    /\ pending = << >> /\ planning = << >>          \* every call of the previous scenario was closed by a CallEnd / PlanEnd
    /\ cfg' = [features |-> features, mask |-> mask]
    /\ planners' = << >> /\ cache' = << >> /\ insts' = << >>
    /\ planning' = << >> /\ pending' = << >> /\ refs' = << >>
    /\ UNCHANGED drift

NewPlanner(pid, kind, elem, result, backend) ==
    /\ pid \notin DOMAIN planners
    /\ kind \in Kinds /\ elem \in Elems
    /\ result \in {"ok", "err"}                          \* a constructor never panics
    /\ result = ExpectedNew(kind, elem, cfg)             \* C13, C14
    /\ IF result = "ok"
       THEN /\ planners' = planners @@ (pid :> [kind |-> kind, elem |-> elem, backend |-> backend, alive |-> TRUE])
            /\ cache' = cache @@ (pid :> {})
            /\ drift' = drift + DriftIf(backend # ExpectedBackend(kind, elem, cfg), <<"backend", kind, elem, backend>>)
       ELSE UNCHANGED <<planners, cache, drift>>
    /\ UNCHANGED <<cfg, insts, planning, pending, refs>>

DropPlanner(pid) ==
    /\ pid \in DOMAIN planners /\ planners[pid].alive
    /\ planning = << >>
    /\ planners' = [planners EXCEPT ![pid].alive = FALSE]
    /\ UNCHANGED <<cfg, cache, insts, planning, pending, refs, drift>>      \* transforms stay valid

PlanBegin(pid, n, dir) ==
    /\ pid \in DOMAIN planners /\ planners[pid].alive
    /\ planning = << >>
    /\ n >= 0 /\ dir \in Dirs
    /\ planning' = <<[pid |-> pid, n |-> n, dir |-> dir,
                       cache0 |-> {k[1] : k \in {c \in cache[pid] : c[2] = dir}},   \* lengths cached for this direction at entry
                       builds |-> << >>]>>                                             \* hook-reported build steps so far
    /\ UNCHANGED <<cfg, planners, cache, insts, pending, refs, drift>>

\* hook-reported internal steps of a plan_fft call: faithful layer, drift only
CacheGet(len, dir, hit) ==
    /\ planning # << >>
    /\ LET pid == planning[1].pid IN
       drift' = drift + DriftIf(hit # (<<len, dir>> \in cache[pid]), <<"cache-get", pid, len, dir, hit>>)
    /\ UNCHANGED <<cfg, planners, cache, insts, planning, pending, refs>>

CacheInsert(len, dir) ==
    /\ planning # << >>
    /\ LET pid == planning[1].pid IN cache' = [cache EXCEPT ![pid] = @ \cup {<<len, dir>>}]
    /\ UNCHANGED <<cfg, planners, insts, planning, pending, refs, drift>>

ScratchBoundOk(len, scr) == \A e \in 1..3 : scr[e] <= 12 * len + 64          \* C05

Build(kind, len, dir, scr) ==
    /\ planning # << >>
    /\ drift' = drift + DriftIf(~(dir = planning[1].dir /\ ScratchBoundOk(len, scr)), <<"build", kind, len, dir, scr>>)
    /\ planning' = <<[planning[1] EXCEPT !.builds = Append(@, <<kind, len, scr>>)]>>
    /\ UNCHANGED <<cfg, planners, cache, insts, pending, refs>>

\* Faithful layer for the AVX planner's cache-dependent planning (replan_with_cache): given the cache contents at
\* entry, the outermost plan's base and radix chain are predicted and compared with the last build steps reported.
AvxChainExpected(elem, n, cache0) ==
    LET plan == AvxPlanFft(elem, HasBit(cfg.mask, BitAvx2), n, cache0) IN
    IF IsPanicPlan(plan) THEN << >>
    ELSE <<plan.base.len>> \o ChainLens(plan.radixes, 1, plan.base.len)
\* Faithful layer for the scalar / SSE planners' build_fft: the recipe tree is walked in post-order, a node whose
\* length is already cached (for this direction) is taken from the cache together with its whole subtree, every node
\* built is inserted.  Returns the sequence of lengths built.
RECURSIVE VisitNode(_, _, _)
VisitNode(t, i, c) ==
    LET len == NodeLen(t, i) IN
    IF len \in c THEN [b |-> << >>, c |-> c]
    ELSE LET ch == t[i].ch
             r1 == IF Len(ch) >= 1 THEN VisitNode(t, ch[1], c) ELSE [b |-> << >>, c |-> c]
             r2 == IF Len(ch) >= 2 THEN VisitNode(t, ch[2], r1.c) ELSE [b |-> << >>, c |-> r1.c]
         IN [b |-> (r1.b \o r2.b) \o <<len>>, c |-> r2.c \cup {len}]
RecipeBuildsExpected(kind, n, cache0) ==
    LET t == IF kind = "scalar" THEN ScalarPlan(n) ELSE SsePlan(n) IN VisitNode(t, Len(t), cache0).b

BuildChainDrift(p) ==
    LET pl == planners[p.pid] IN
    IF pl.backend \in {"scalar", "sse"} /\ pl.kind \in {"scalar", "sse"} /\ Len(p.builds) > 0
    THEN LET exp == RecipeBuildsExpected(pl.backend, p.n, p.cache0)
             obs == [i \in DOMAIN p.builds |-> p.builds[i][2]]
         IN DriftIf(exp # obs, <<"recipe-builds", pl.backend, p.n, p.dir, exp, obs>>)
    ELSE
    IF pl.backend = "avx" /\ pl.elem \in SimdElems /\ Len(p.builds) > 0
    THEN LET exp == AvxChainExpected(pl.elem, p.n, p.cache0)
             k   == Len(exp)
             obs == IF Len(p.builds) >= k THEN [i \in 1..k |-> p.builds[Len(p.builds) - k + i][2]] ELSE << >>
             \* every radix stage advertises what the AVX mixed-radix formula derives from the stage below it
             stageBad == {i \in 2..Len(p.builds) :
                            /\ p.builds[i][1] \in {"Radix2", "Radix3", "Radix4", "Radix5", "Radix6", "Radix7", "Radix8", "Radix9", "Radix11", "Radix12", "Radix16"}
                            /\ p.builds[i][3] # AvxRadixScr(p.builds[i][2], p.builds[i - 1][3])}
             \* a Rader / Bluestein base advertises what Scratch.tla derives from the inner transform built just before it
             \* (RadersAvx2 with AVX2, the portable Rader's algorithm without)
             Inner(i) == [len |-> p.builds[i - 1][2], scr |-> p.builds[i - 1][3]]
             baseBad == {i \in 2..Len(p.builds) :
                            \/ /\ p.builds[i][1] = "RadersBase" /\ p.builds[i - 1][2] = p.builds[i][2] - 1
                               /\ p.builds[i][3] # (IF HasBit(cfg.mask, BitAvx2) THEN AvxRadersScr(Inner(i))
                                                    ELSE Scr("RadersAlgorithm", p.builds[i][2], <<Inner(i)>>))
                            \/ /\ p.builds[i][1] = "BluesteinsBase" /\ p.builds[i - 1][2] >= 2 * p.builds[i][2] - 1
                               /\ p.builds[i][3] # AvxBluesteinsScr(Inner(i))}
         IN DriftIf(exp # obs, <<"avx-chain", pl.elem, p.n, p.dir, exp, obs>>)
            + DriftIf(stageBad # {}, <<"avx-radix-scratch", p.n, stageBad>>)
            + DriftIf(baseBad # {}, <<"avx-base-scratch", p.n, baseBad>>)
    ELSE 0

\* C04 (+ C05 scratch clause): what plan_fft must return
PlanEnd(pid, iid, outcome, len, rdir, scr) ==
    /\ planning # << >> /\ planning[1].pid = pid
    /\ iid \notin DOMAIN insts
    /\ outcome = "ok"                               \* never panics
    /\ len = planning[1].n                          \* reported length is the requested one
    /\ rdir = planning[1].dir                       \* reported direction is the requested one
    /\ On("C05") => ScratchBoundOk(len, scr)
    /\ insts' = insts @@ (iid :> [pid |-> pid, kind |-> planners[pid].kind, elem |-> planners[pid].elem,
                                  n |-> planning[1].n, dir |-> planning[1].dir,
                                  len |-> len, rdir |-> rdir, scr |-> scr])
    /\ planning' = << >>
    /\ drift' = drift + BuildChainDrift(planning[1])
    /\ UNCHANGED <<cfg, planners, cache, pending, refs>>

\* what today's planner heuristics design for n (faithful layer; << >> = no model for this planner kind)
FaithfulPlan(kind, elem, n) ==
    CASE kind = "scalar" -> ScalarPlan(n)
      [] kind = "sse" -> SsePlan(n)
      [] kind = "avx" /\ elem \in SimdElems -> AvxPlan(elem, HasBit(cfg.mask, BitAvx2), n)
      [] OTHER -> << >>

\* plan report without construction (hook H3): C04 "never panics", C05 "no naive node"; shape of the tree is faithful layer
PlanReport(pid, n, dir, outcome, tree) ==
    /\ pid \in DOMAIN planners /\ planners[pid].alive
    /\ planning = << >>
    /\ outcome = "ok"
    /\ On("C05") /\ Known(tree) /\ Shaped(tree) => NoNaiveAbove32(tree)
    /\ drift' = drift + DriftIf(~(Known(tree) /\ WellFormed(tree) /\ TreeLen(tree) = n), <<"plan-report", n, dir>>)
                     + (LET f == FaithfulPlan(planners[pid].kind, planners[pid].elem, n) IN
                        DriftIf(f # << >> /\ f # tree, <<"plan-differs-from-model", planners[pid].kind, planners[pid].elem, n>>))
    /\ UNCHANGED <<cfg, planners, cache, insts, planning, pending, refs>>

\* Faithful layer for scratch plumbing: every node of a client-assembled tree advertises what the constructor formulas
\* of Scratch.tla predict from its children's advertised lengths, and those lengths suffice for every child call.
ScratchKinds == {"Dft", "Butterfly", "MixedRadix", "MixedRadixSmall", "GoodThomasAlgorithm", "GoodThomasAlgorithmSmall",
                 "RadersAlgorithm", "BluesteinsAlgorithm", "Radix4", "Radix3"}
RECURSIVE ScratchDrift(_)
ScratchDrift(nd) ==
    LET chs  == [i \in DOMAIN nd.ch |-> [len |-> nd.ch[i].len, scr |-> nd.ch[i].scr]]
        here == IF nd.k \in ScratchKinds
                THEN DriftIf(~(Scr(nd.k, nd.len, chs) = nd.scr /\ Suffices(nd.k, nd.len, chs)),
                             <<"scratch-model", nd.k, nd.len, nd.scr, Scr(nd.k, nd.len, chs)>>)
                ELSE 0
    IN here + SeqSum([i \in DOMAIN nd.ch |-> ScratchDrift(nd.ch[i])])

\* a transform assembled by the client from the public constructors (C12); never panics within preconditions
Construct(iid, elem, outcome, n, dir, len, rdir, scr, tree) ==
    /\ iid \notin DOMAIN insts
    /\ outcome = "ok" /\ len = n /\ rdir = dir
    /\ insts' = insts @@ (iid :> [pid |-> 0, kind |-> "ctor", elem |-> elem, n |-> n, dir |-> dir,
                                  len |-> len, rdir |-> rdir, scr |-> scr])
    /\ drift' = drift + (IF tree = << >> THEN 0 ELSE ScratchDrift(tree))
    /\ UNCHANGED <<cfg, planners, cache, planning, pending, refs>>

\* C14: generic code may use only ring operations of the element type (and constants converted from f64);
\* values of a type whose size differs from f32/f64 are never re-typed (their padding survives)
ElemReport(elem, non_ring, tags_ok) ==
    /\ elem \in Elems
    /\ non_ring = 0
    /\ tags_ok
    /\ UNCHANGED vars

CallBegin(cid, iid, entry, data, out, scratch, inh) ==
    /\ cid \notin DOMAIN pending
    /\ iid \in DOMAIN insts                         \* also after its planner was dropped
    /\ entry \in Entries
    /\ pending' = pending @@ (cid :> [iid |-> iid, entry |-> entry, data |-> data, out |-> out,
                                      scratch |-> scratch, inh |-> inh])
    /\ UNCHANGED <<cfg, planners, cache, insts, planning, refs, drift>>

EnforceIllPanics == OnAny({"C09", "C03", "C12"})

CallEnd(cid, outcome, obs, role, key, outh) ==
    /\ cid \in DOMAIN pending
    /\ outcome \in {"ok", "panic"}                  \* anything else (crash, abort) is not a behaviour
    /\ LET c    == pending[cid]
           inst == insts[c.iid]
           n    == inst.len
           adv  == inst.scr[ScratchIdx(c.entry)]
       IN
       /\ Well(c, n, adv) => outcome = "ok"
       /\ EnforceIllPanics /\ Ill(c, n, adv) => outcome = "panic"
       /\ outcome = "ok" => \A i \in DOMAIN obs : ObsOk(obs[i], c, inst)
       /\ outcome = "panic" => \A i \in DOMAIN obs : obs[i].kind = "unchanged" => obs[i].unchanged    \* C15
       /\ RequiredOk(c, inst, outcome, obs)
       /\ CASE role = "ref"   -> refs' = (<<key, c.inh>> :> outh) @@ refs
            [] role = "check" -> /\ <<key, c.inh>> \in DOMAIN refs
                                 /\ outcome = "ok" => refs[<<key, c.inh>>] = outh       \* C10 twin / C11 determinism
                                 /\ UNCHANGED refs
            [] OTHER -> UNCHANGED refs
    /\ pending' = [x \in DOMAIN pending \ {cid} |-> pending[x]]
    \* faithful cost model: the measured operation count equals Ops.tla's count for the tree today's planner designs
    /\ drift' = drift + (LET inst == insts[pending[cid].iid] IN
                         SeqSum([i \in DOMAIN obs |->
                            IF obs[i].kind = "ops" /\ inst.kind \in {"auto", "scalar"} /\ inst.elem \notin SimdElems /\ inst.n < 100000
                            THEN DriftIf(obs[i].a # TreeOps(ScalarPlan(inst.n)), <<"ops-model", inst.n, obs[i].a, TreeOps(ScalarPlan(inst.n))>>)
                            ELSE 0]))
    /\ UNCHANGED <<cfg, planners, cache, insts, planning>>

-----------------------------------------------------------------------------
(* State invariants of the property layer (checked on the bounded model and on every trace). *)
TypeOk ==
    /\ cfg.features \subseteq {"avx", "sse"} /\ cfg.mask \in 0..15
    /\ \A p \in DOMAIN planners : planners[p].kind \in Kinds /\ planners[p].elem \in Elems
    /\ DOMAIN cache = DOMAIN planners
    /\ Len(planning) <= 1
    /\ drift \in Nat

\* C04 as a state invariant: every transform a client holds has the requested length and direction
C04_Inv == \A i \in DOMAIN insts : insts[i].len = insts[i].n /\ insts[i].rdir = insts[i].dir
\* C13/C14: a SIMD planner only exists where its instruction set and element type allow it
C13_Inv == \A p \in DOMAIN planners :
              /\ planners[p].kind = "avx" => AvxAvail(cfg, planners[p].elem)
              /\ planners[p].kind = "sse" => SseAvail(cfg, planners[p].elem)
\* calls only ever refer to transforms the client was given
PendingInv == \A c \in DOMAIN pending : pending[c].iid \in DOMAIN insts
=============================================================================
