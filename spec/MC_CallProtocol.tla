-------------------------- MODULE MC_CallProtocol --------------------------
(***************************************************************************)
(* Step-wise model of one helper invocation (fft_helper_x -> validate_x -> *)
(* fft_error_x), explored for every variant and every combination of       *)
(* chunk size, buffer lengths and scratch lengths inside the bounds.       *)
(* pc:  "h0" early return on chunk_size 0  ->  "v0" scratch check  ->      *)
(*      "v1" length comparison (zip variants)  ->  "loop" one chunk (or    *)
(*      two) per step  ->  "tail"  ->  "e0" the error function  -> "done". *)
(* Invariants (at "done"):                                                 *)
(*   - outcome = "panic" exactly for ill shapes, "ok" for well shapes;     *)
(*   - a validation error is never swallowed by the error function;        *)
(*   - on "ok" the visited slices are exactly the k chunks, in order,      *)
(*     disjoint, covering the buffer; the same scratch slice each time;    *)
(*   - the step-wise run agrees with the closed forms of CallProtocol.tla  *)
(*     that the trace specification uses to judge hook events.             *)
(***************************************************************************)
EXTENDS CallProtocol, TLC

CONSTANTS MaxChunk, MaxLen, MaxScratch

VARIABLES v, c, len1, len2, scratch, required, pc, rem, visited, res, outcome
vars == <<v, c, len1, len2, scratch, required, pc, rem, visited, res, outcome>>
params == <<v, c, len1, len2, scratch, required>>

Init ==
    /\ v \in Variants /\ c \in 0..MaxChunk /\ len1 \in 0..MaxLen /\ len2 \in 0..MaxLen
    /\ scratch \in 0..MaxScratch /\ required \in 0..MaxScratch
    /\ (~IsZip(v) => len2 = 0) /\ (IsUnroll(v) => scratch = 0 /\ required = 0)
    /\ pc = "h0" /\ rem = len1 /\ visited = << >> /\ res = "none" /\ outcome = "none"

H0 == /\ pc = "h0"
      /\ IF c = 0 THEN pc' = "done" /\ outcome' = "ok" ELSE pc' = "v0" /\ UNCHANGED outcome
      /\ UNCHANGED <<params, rem, visited, res>>
V0 == /\ pc = "v0"
      /\ IF ~IsUnroll(v) /\ scratch < required THEN pc' = "e0" /\ res' = "err" ELSE pc' = "v1" /\ UNCHANGED res
      /\ UNCHANGED <<params, rem, visited, outcome>>
V1 == /\ pc = "v1"
      /\ IF IsZip(v) /\ len1 # len2 THEN pc' = "e0" /\ res' = "err" ELSE pc' = "loop" /\ UNCHANGED res
      /\ UNCHANGED <<params, rem, visited, outcome>>
Loop ==
    /\ pc = "loop"
    /\ LET w == IF IsUnroll(v) THEN 2 ELSE 1 IN
       IF rem >= w * c
       THEN /\ visited' = Append(visited, [off |-> len1 - rem, len |-> w * c, width |-> w, rem |-> rem,
                                           scr |-> IF IsUnroll(v) THEN 0 ELSE required])     \* scratch trimmed to `required`
            /\ rem' = rem - w * c
            /\ UNCHANGED pc
       ELSE pc' = "tail" /\ UNCHANGED <<rem, visited>>
    /\ UNCHANGED <<params, res, outcome>>
TailStep ==
    /\ pc = "tail"
    /\ IF IsUnroll(v) /\ rem = c
       THEN /\ visited' = Append(visited, [off |-> len1 - rem, len |-> c, width |-> 1, rem |-> rem, scr |-> 0])
            /\ rem' = 0 /\ res' = "ok"
       ELSE /\ res' = IF rem = 0 THEN "ok" ELSE "err"
            /\ UNCHANGED <<rem, visited>>
    /\ pc' = "e0"
    /\ UNCHANGED <<params, outcome>>
E0 == /\ pc = "e0"
      /\ outcome' = IF res = "ok" THEN "ok"
                    ELSE IF ErrorFnPanics(v, c, len1, len2, scratch, required) THEN "panic" ELSE "swallowed"
      /\ pc' = "done"
      /\ UNCHANGED <<params, rem, visited, res>>

Next == H0 \/ V0 \/ V1 \/ Loop \/ TailStep \/ E0 \/ (pc = "done" /\ UNCHANGED vars)
Spec == Init /\ [][Next]_vars

Done == pc = "done"
Ill  == IllShape(v, c, len1, len2, scratch, required)
Well == WellShape(v, c, len1, len2, scratch, required)

PanicIffIll     == Done => ((Ill => outcome = "panic") /\ (outcome = "panic" => Ill))
WellCompletes   == Done /\ Well => outcome = "ok"
NeverSwallowed  == outcome # "swallowed"
OkVisitsAll     == Done /\ outcome = "ok" /\ c > 0 =>
                      /\ len1 % c = 0
                      /\ \A i \in DOMAIN visited : visited[i].off = SeqSum([j \in 1..(i - 1) |-> visited[j].len])
                      /\ SeqSum([j \in DOMAIN visited |-> visited[j].len]) = len1
                      /\ \A i \in DOMAIN visited : visited[i].scr = (IF IsUnroll(v) THEN 0 ELSE required)
AgreesWithClosedForm ==
    Done => /\ outcome = HelperOutcome(v, c, len1, len2, scratch, required)
            /\ [i \in DOMAIN visited |-> <<visited[i].width, visited[i].rem>>] = ExpectedChunks(v, c, len1, len2, scratch, required)
            /\ (outcome = "ok" /\ c > 0 => ChunksPartition(v, c, len1, len2, scratch, required))

Inv == PanicIffIll /\ WellCompletes /\ NeverSwallowed /\ OkVisitsAll /\ AgreesWithClosedForm
=============================================================================
