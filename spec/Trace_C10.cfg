SPECIFICATION TraceSpec
CONSTANT Prop = "C10"
INVARIANT TraceInv
POSTCONDITION TraceAccepted
CHECK_DEADLOCK FALSE
