---------------------------- MODULE PlannerScalar ----------------------------
(***************************************************************************)
(* Faithful layer: transcription of FftPlannerScalar's recipe design       *)
(* (src/plan.rs: design_fft_for_len, design_fft_with_factors,              *)
(* design_butterfly_product, design_mixed_radix, design_radixn,            *)
(* design_prime) and of PrimeFactors::partition_factors                    *)
(* (src/math_utils.rs).  Every assert!/unwrap of the code is an explicit   *)
(* Panic node, so "the planner never panics" is a checkable statement      *)
(* about this model, and the model's trees are compared with the plan      *)
(* reports of the real planner (a mismatch is MODEL-DRIFT, not a           *)
(* violation: a different valid plan keeps every property).                *)
(* Trees use the flat post-order representation of Recipe.tla.             *)
(***************************************************************************)
EXTENDS Recipe

Leaf(k, p) == <<[k |-> k, p |-> p, ch |-> << >>]>>
ShiftCh(t, off) == [i \in DOMAIN t |-> [t[i] EXCEPT !.ch = [j \in DOMAIN t[i].ch |-> t[i].ch[j] + off]]]
Unary(k, p, t) == Append(t, [k |-> k, p |-> p, ch |-> <<Len(t)>>])
Pair(k, a, b) == (a \o ShiftCh(b, Len(a))) \o <<[k |-> k, p |-> << >>, ch |-> <<Len(a), Len(a) + Len(b)>>]>>
PanicTree(code) == Leaf("Panic", <<code>>)
HasPanic(t) == \E i \in DOMAIN t : t[i].k = "Panic"

\* ----- PrimeFactors (math_utils.rs) ------------------------------------------------------------
P2(n) == Mult(n, 2)
P3(n) == Mult(n, 3)
Rest(n) == StripFactor(StripFactor(n, 2), 3)                      \* product of the "other factors"
\* other_factors as a sequence of [value, count], ascending
RECURSIVE OtherFactorsOf(_)
OtherFactorsOf(m) == IF m < 2 THEN << >>
                     ELSE LET p == Spf(m) IN <<[value |-> p, count |-> Mult(m, p)]>> \o OtherFactorsOf(StripFactor(m, p))
OtherFactors(n) == OtherFactorsOf(Rest(n))
TotalFactorCount(n) == P2(n) + P3(n) + SeqSum([i \in DOMAIN OtherFactors(n) |-> OtherFactors(n)[i].count])
DistinctFactorCount(n) == (IF P2(n) > 0 THEN 1 ELSE 0) + (IF P3(n) > 0 THEN 1 ELSE 0) + Len(OtherFactors(n))
IsPrimeFactors(n) == TotalFactorCount(n) = 1
HasFactorsLeq(n, f) == P2(n) > 0 \/ P3(n) > 0 \/ (Len(OtherFactors(n)) > 0 /\ OtherFactors(n)[1].value <= f)
HasFactorsGt(n, f) == (f < 2 /\ P2(n) > 0) \/ (f < 3 /\ P3(n) > 0)
                      \/ (Len(OtherFactors(n)) > 0 /\ OtherFactors(n)[Len(OtherFactors(n))].value > f)
ProductAbove(n, f) == SeqProduct([i \in DOMAIN OtherFactors(n) |->
                          IF OtherFactors(n)[i].value > f THEN Pow(OtherFactors(n)[i].value, OtherFactors(n)[i].count) ELSE 1])
CountOf(n, v) == Mult(Rest(n), v)

\* partition_factors: returns <<left, right>>
RECURSIVE Greedy(_, _, _, _)
Greedy(of, i, l, r) ==
    IF i > Len(of) THEN <<l, r>>
    ELSE LET fp == Pow(of[i].value, of[i].count) IN
         IF l <= r THEN Greedy(of, i + 1, l * fp, r) ELSE Greedy(of, i + 1, l, r * fp)

AllEven(n) == P2(n) % 2 = 0 /\ P3(n) % 2 = 0 /\ \A i \in DOMAIN OtherFactors(n) : OtherFactors(n)[i].count % 2 = 0
HalfProduct(n) == Pow(2, P2(n) \div 2) * Pow(3, P3(n) \div 2) *
                  SeqProduct([i \in DOMAIN OtherFactors(n) |-> Pow(OtherFactors(n)[i].value, OtherFactors(n)[i].count \div 2)])

PartitionFactors(n) ==
    IF AllEven(n) THEN <<HalfProduct(n), HalfProduct(n)>>
    ELSE IF DistinctFactorCount(n) = 1 THEN
        \* a prime power: (the larger part, the smaller part)
        LET p == Spf(n) e == Mult(n, p) IN <<Pow(p, e - e \div 2), Pow(p, e \div 2)>>
    ELSE
        LET g  == Greedy(OtherFactors(n), 1, 1, 1)
            l1 == IF g[1] <= g[2] THEN g[1] * Pow(2, P2(n)) ELSE g[1]
            r1 == IF g[1] <= g[2] THEN g[2] ELSE g[2] * Pow(2, P2(n))
            l2 == IF P3(n) > 0 /\ l1 <= r1 THEN l1 * Pow(3, P3(n)) ELSE l1
            r2 == IF P3(n) > 0 /\ l1 <= r1 THEN r1 ELSE r1 * Pow(3, P3(n))
        IN <<l2, r2>>

\* ----- plan.rs ----------------------------------------------------------------------------------
MaxRadixNFactor == 7
MaxRaderPrimeFactor == 23
ProductButterflies == <<2, 3, 4, 5, 6, 7, 8, 9, 11, 13, 16, 17, 19, 23, 24, 27, 29, 31, 32>>
InSeq(s, x) == \E i \in DOMAIN s : s[i] = x

CeilSqrt(n) == CHOOSE s \in 0..(n + 1) : s * s >= n /\ (s = 0 \/ (s - 1) * (s - 1) < n)

\* design_butterfly_product: <<left, right>> or << >>
RECURSIVE BestPair(_, _, _, _, _)
BestPair(len, limit, i, minsum, best) ==
    IF i > Len(ProductButterflies) \/ ProductButterflies[i] >= limit THEN best
    ELSE LET left == ProductButterflies[i] right == len \div left IN
         IF left * right = len /\ InSeq(ProductButterflies, right) /\ left + right < minsum
         THEN BestPair(len, limit, i + 1, left + right, <<left, right>>)
         ELSE BestPair(len, limit, i + 1, minsum, best)
ButterflyProduct(len) ==
    IF len > 992 \/ IsPow2(len) THEN << >> ELSE BestPair(len, CeilSqrt(len) + 1, 1, 1000000, << >>)

RECURSIVE RadixNSplit(_, _)
\* stage: 7s, then 6s, then 5s, then 3s
RadixNSplit(cross, stage) ==
    CASE stage = 7 -> IF cross % 7 = 0 THEN <<7>> \o RadixNSplit(cross \div 7, 7) ELSE RadixNSplit(cross, 6)
      [] stage = 6 -> IF cross % 6 = 0 THEN <<6>> \o RadixNSplit(cross \div 6, 6) ELSE RadixNSplit(cross, 5)
      [] stage = 5 -> IF cross % 5 = 0 THEN <<5>> \o RadixNSplit(cross \div 5, 5) ELSE RadixNSplit(cross, 3)
      [] stage = 3 -> IF cross % 3 = 0 THEN <<3>> \o RadixNSplit(cross \div 3, 3) ELSE <<cross>>     \* last entry: the power-of-two remainder
RECURSIVE Repeat(_, _)
Repeat(x, k) == IF k = 0 THEN << >> ELSE <<x>> \o Repeat(x, k - 1)

RECURSIVE DesignForLen(_), DesignWithFactors(_), DesignPrime(_), DesignRadixN(_), DesignMixedRadix(_, _)

DesignForLen(len) == IF len < 2 THEN Leaf("Dft", <<len>>) ELSE DesignWithFactors(len)

DesignWithFactors(len) ==
    IF len \in ScalarButterflies THEN Leaf("Butterfly", <<len>>)
    ELSE IF IsPrimeFactors(len) THEN DesignPrime(len)
    ELSE LET bp == ButterflyProduct(len) IN
         IF bp # << >> THEN
             Pair(IF Gcd(bp[1], bp[2]) = 1 THEN "GoodThomasAlgorithmSmall" ELSE "MixedRadixSmall",
                  DesignForLen(bp[1]), DesignForLen(bp[2]))
         ELSE IF HasFactorsLeq(len, MaxRadixNFactor) THEN DesignRadixN(len)
         ELSE LET pf == PartitionFactors(len) IN DesignMixedRadix(pf[1], pf[2])

DesignMixedRadix(l, r) ==
    LET lt == DesignWithFactors(l)
        rt == DesignWithFactors(r)
    IN IF l < 31 /\ r < 31
       THEN Pair(IF Gcd(l, r) = 1 THEN "GoodThomasAlgorithmSmall" ELSE "MixedRadixSmall", lt, rt)
       ELSE Pair("MixedRadix", lt, rt)

DesignRadixN(n) ==
    LET p2 == P2(n) p3 == P3(n) p5 == CountOf(n, 5) p7 == CountOf(n, 7)
        base == IF HasFactorsGt(n, MaxRadixNFactor) THEN ProductAbove(n, MaxRadixNFactor)
                ELSE IF p7 = 0 /\ p5 = 0 /\ p3 < 2 THEN
                     (IF p3 = 0 THEN (IF p2 > 5 THEN (IF p2 % 2 = 1 THEN 8 ELSE 16) ELSE 0)      \* 0 = assert!(p2 > 5) fails
                      ELSE (IF p2 > 3 THEN (IF p2 % 2 = 1 THEN 24 ELSE 12) ELSE 0))               \* 0 = assert!(p2 > 3) fails
                ELSE IF p2 > 0 /\ p3 > 0 THEN
                     (IF p2 <= p3 THEN 6 ELSE IF p2 - p3 = 1 THEN 12 ELSE 24)
                ELSE IF p3 > 2 THEN 27
                ELSE IF p3 > 1 THEN 9
                ELSE IF p7 > 0 THEN 7
                ELSE IF p5 > 0 THEN 5 ELSE 0                                                       \* 0 = assert!(p5 > 0) fails
    IN
    IF base = 0 THEN PanicTree(1)
    ELSE IF n % base # 0 THEN PanicTree(2)                       \* the code would silently mis-divide; flagged here
    ELSE
        LET baseT == DesignForLen(base)
            cross == n \div base
        IN IF IsPow2(cross) /\ TrailingZeros(cross) % 2 = 0
           THEN Unary("Radix4", <<TrailingZeros(cross) \div 2>>, baseT)
           ELSE LET fs   == RadixNSplit(cross, 7)
                    rem  == fs[Len(fs)]
                    head == SubSeq(fs, 1, Len(fs) - 1)
                IN IF ~IsPow2(rem) THEN PanicTree(3)              \* assert!(cross_len.is_power_of_two())
                   ELSE LET bits == TrailingZeros(rem)
                            all  == (head \o (IF bits % 2 = 1 THEN <<2>> ELSE << >>)) \o Repeat(4, bits \div 2)
                        IN Unary("RadixN", all, baseT)

DesignPrime(len) ==
    LET inner == len - 1 IN
    IF \E i \in DOMAIN OtherFactors(inner) : OtherFactors(inner)[i].value > MaxRaderPrimeFactor
    THEN LET minInner == 2 * len - 1
             pow2     == NextPow2(minInner)
             f3       == (pow2 \div 4) * 3
             innerLen == IF f3 >= minInner THEN f3 ELSE pow2
         IN Unary("BluesteinsAlgorithm", <<len>>, DesignForLen(innerLen))
    ELSE Unary("RadersAlgorithm", << >>, DesignWithFactors(inner))

ScalarPlan(n) == DesignForLen(n)
=============================================================================
