SPECIFICATION Spec
CONSTANTS
  P = 110881
  BigN = 110880
  GRe = 83597
  GIm = 26351
  G <- GPair
  MaxLen = 200
INVARIANT Inv
CHECK_DEADLOCK FALSE
