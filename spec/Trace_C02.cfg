SPECIFICATION TraceSpec
CONSTANT Prop = "C02"
INVARIANT TraceInv
POSTCONDITION TraceAccepted
CHECK_DEADLOCK FALSE
