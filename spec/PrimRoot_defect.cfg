SPECIFICATION Spec
CONSTANTS
  MinP = 3600
  MaxP = 3700
  Strict = TRUE
INVARIANTS FactorsOk RootOk LoopInv
CHECK_DEADLOCK FALSE
