SPECIFICATION TraceSpec
CONSTANT Prop = "C01"
INVARIANT TraceInv
POSTCONDITION TraceAccepted
CHECK_DEADLOCK FALSE
