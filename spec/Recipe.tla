------------------------------- MODULE Recipe -------------------------------
(***************************************************************************)
(* The plan-tree algebra shared by all planners.                           *)
(*                                                                         *)
(* A plan tree is a flat post-order sequence of nodes                      *)
(*     [k |-> kind, p |-> <<int params>>, ch |-> <<child indices>>]        *)
(* (children always have smaller indices than their parent; the root is    *)
(* the last node).  Kinds are the variant names of the planners' recipes:  *)
(*   scalar / SSE:  Dft(len)  Butterfly(len)  PrimeButterfly(len)          *)
(*                  MixedRadix  MixedRadixSmall  GoodThomasAlgorithm       *)
(*                  GoodThomasAlgorithmSmall  RadersAlgorithm              *)
(*                  BluesteinsAlgorithm(len)  RadixN(f1..fk)  Radix4(k)    *)
(*   AVX:           ButterflyBase(len)  CacheBase(len)  RadersBase(len)    *)
(*                  BluesteinsBase(len, inner)  AvxRadix(r)                *)
(* The same algebra describes trees assembled from the public constructors *)
(* (C12) and the trees produced by the faithful planner models.            *)
(***************************************************************************)
EXTENDS Arith

LeafKinds  == {"Dft", "Butterfly", "PrimeButterfly", "ButterflyBase", "CacheBase"}
PairKinds  == {"MixedRadix", "MixedRadixSmall", "GoodThomasAlgorithm", "GoodThomasAlgorithmSmall"}
UnaryKinds == {"RadersAlgorithm", "BluesteinsAlgorithm", "RadixN", "Radix4",
               "RadersBase", "BluesteinsBase", "AvxRadix"}
KnownKinds == LeafKinds \cup PairKinds \cup UnaryKinds

\* lengths for which some back end has a fixed-size kernel
ScalarButterflies == {2, 3, 4, 5, 6, 7, 8, 9, 11, 12, 13, 16, 17, 19, 23, 24, 27, 29, 31, 32}
SseButterflies    == {1, 2, 3, 4, 5, 6, 8, 9, 10, 12, 15, 16, 24, 32} \cup {7, 11, 13, 17, 19, 23, 29, 31}
AvxButterflies32  == {0, 1, 2, 3, 4, 5, 6, 7, 8, 9, 11, 12, 13, 16, 17, 19, 23, 24, 27, 29, 31, 32, 36, 48,
                      54, 64, 72, 128, 256, 512}
AvxButterflies64  == {0, 1, 2, 3, 4, 5, 6, 7, 8, 9, 11, 12, 13, 16, 17, 18, 19, 23, 24, 27, 29, 31, 32, 36,
                      64, 128, 256, 512}
AnyButterfly      == ScalarButterflies \cup SseButterflies \cup AvxButterflies32 \cup AvxButterflies64
AvxRadixes        == {2, 3, 4, 5, 6, 7, 8, 9, 11, 12, 16}
RadixNFactors     == {2, 3, 4, 5, 6, 7}

Known(t)  == \A i \in DOMAIN t : t[i].k \in KnownKinds
Shaped(t) == /\ Len(t) >= 1
             /\ \A i \in DOMAIN t :
                  /\ \A c \in DOMAIN t[i].ch : t[i].ch[c] \in 1..(i - 1)
                  /\ t[i].k \in LeafKinds  => Len(t[i].ch) = 0 /\ Len(t[i].p) >= 1
                  /\ t[i].k \in PairKinds  => Len(t[i].ch) = 2
                  /\ t[i].k \in UnaryKinds => Len(t[i].ch) = 1
                  /\ t[i].k \in {"BluesteinsAlgorithm", "Radix4", "RadersBase", "AvxRadix"} => Len(t[i].p) >= 1
                  /\ t[i].k = "BluesteinsBase" => Len(t[i].p) >= 2

\* length of the transform described by node i (children first: post-order)
RECURSIVE NodeLen(_, _)
NodeLen(t, i) ==
    LET nd == t[i] IN
    CASE nd.k \in LeafKinds -> nd.p[1]
      [] nd.k \in PairKinds -> NodeLen(t, nd.ch[1]) * NodeLen(t, nd.ch[2])
      [] nd.k = "RadersAlgorithm" -> NodeLen(t, nd.ch[1]) + 1
      [] nd.k = "BluesteinsAlgorithm" -> nd.p[1]
      [] nd.k = "RadixN" -> NodeLen(t, nd.ch[1]) * SeqProduct(nd.p)
      [] nd.k = "Radix4" -> NodeLen(t, nd.ch[1]) * Pow(4, nd.p[1])
      [] nd.k = "RadersBase" -> nd.p[1]
      [] nd.k = "BluesteinsBase" -> nd.p[1]
      [] nd.k = "AvxRadix" -> nd.p[1] * NodeLen(t, nd.ch[1])
      [] OTHER -> 0

TreeLen(t) == NodeLen(t, Len(t))

(***************************************************************************)
(* Constructor preconditions (documented requirements / constructor        *)
(* asserts) of each node kind.                                             *)
(***************************************************************************)
NodeOk(t, i) ==
    LET nd == t[i]
        n  == NodeLen(t, i)
    IN
    CASE nd.k = "Dft" -> TRUE
      [] nd.k \in {"Butterfly", "PrimeButterfly", "ButterflyBase"} -> nd.p[1] \in AnyButterfly
      [] nd.k = "CacheBase" -> TRUE
      [] nd.k \in {"MixedRadix", "MixedRadixSmall"} -> TRUE
      [] nd.k \in {"GoodThomasAlgorithm", "GoodThomasAlgorithmSmall"} ->
            Gcd(NodeLen(t, nd.ch[1]), NodeLen(t, nd.ch[2])) = 1
      [] nd.k = "RadersAlgorithm" -> IsPrime(n)
      [] nd.k = "BluesteinsAlgorithm" -> NodeLen(t, nd.ch[1]) >= 2 * n - 1
      [] nd.k = "RadixN" -> \A j \in DOMAIN nd.p : nd.p[j] \in RadixNFactors
      [] nd.k = "Radix4" -> TRUE
      [] nd.k = "RadersBase" -> IsPrime(n) /\ NodeLen(t, nd.ch[1]) = n - 1
      [] nd.k = "BluesteinsBase" -> NodeLen(t, nd.ch[1]) = nd.p[2] /\ nd.p[2] >= 2 * n - 1
      [] nd.k = "AvxRadix" -> nd.p[1] \in AvxRadixes
      [] OTHER -> TRUE

WellFormed(t) == Shaped(t) /\ \A i \in DOMAIN t : NodeOk(t, i)

(***************************************************************************)
(* C05, structural clause: no naive quadratic sub-transform above 32.      *)
(* Quadratic kernels are the naive DFT and the prime-length butterflies.   *)
(***************************************************************************)
IsQuadraticNode(t, i) ==
    \/ t[i].k = "Dft"
    \/ t[i].k \in {"Butterfly", "PrimeButterfly", "ButterflyBase"} /\ IsPrime(t[i].p[1])

NoNaiveAbove32(t) == \A i \in DOMAIN t : IsQuadraticNode(t, i) => NodeLen(t, i) <= 32

NontrivialTree(t) == \E i \in DOMAIN t : t[i].k \notin LeafKinds
=============================================================================
