------------------------------ MODULE MC_Ctor ------------------------------
(***************************************************************************)
(* C12: enumerates every expression tree up to depth 2 over RustFFT's      *)
(* public algorithm constructors whose arithmetic preconditions hold       *)
(* (coprime lengths for Good-Thomas, prime length for Rader, inner length  *)
(* >= 2n-1 for Bluestein, power-of-two / power-of-three lengths for        *)
(* Radix4::new / Radix3::new) and whose composite length stays below       *)
(* MaxLen.  Each tree is one initial state; the invariant checks the       *)
(* algebra (lengths multiply, preconditions are closed under nesting) and  *)
(* exports the tree as a scenario line for the harness, which builds it    *)
(* with the real constructors for GF(p), f32 and f64.                      *)
(***************************************************************************)
EXTENDS Arith, TLC, Json

CONSTANTS MaxLen, D1Den, SeedDen, SampleDen, SampleRes, Depth2On, PrimeMax, BlueMax, BothKinds

ButterflyLens == {1, 2, 3, 4, 5, 6, 7, 8, 9, 11, 12, 13, 16, 17, 19, 23, 24, 27, 29, 31, 32}
DftLens       == {1, 2, 3, 5, 6}
Radix4Lens    == {64, 128}
Radix3Lens    == {27, 81}
PlannedLens   == {10, 30, 36, 37, 47, 100}
PlannerKinds  == {"auto", "scalar", "sse", "avx"}

Node(k, len, kk, pl, ch) == [k |-> k, len |-> len, kk |-> kk, pl |-> pl, ch |-> ch]

Leaves ==
    {Node("Dft", l, 0, "", << >>) : l \in DftLens} \cup
    {Node("Butterfly", l, 0, "", << >>) : l \in ButterflyLens} \cup
    {Node("Radix4", l, 0, "", << >>) : l \in Radix4Lens} \cup
    {Node("Radix3", l, 0, "", << >>) : l \in Radix3Lens} \cup
    {Node("Planned", l, 0, p, << >>) : l \in PlannedLens, p \in PlannerKinds}

PairKinds == {"MixedRadix", "MixedRadixSmall", "GoodThomasAlgorithm", "GoodThomasAlgorithmSmall"}

RECURSIVE TLen(_)
TLen(t) ==
    CASE t.k \in {"Dft", "Butterfly", "Radix4", "Radix3", "Planned"} -> t.len
      [] t.k \in PairKinds -> TLen(t.ch[1]) * TLen(t.ch[2])
      [] t.k = "RadersAlgorithm" -> TLen(t.ch[1]) + 1
      [] t.k = "BluesteinsAlgorithm" -> t.len
      [] t.k = "Radix4Base" -> TLen(t.ch[1]) * Pow(4, t.kk)
      [] t.k = "Radix3Base" -> TLen(t.ch[1]) * Pow(3, t.kk)

RECURSIVE Depth(_)
Depth(t) == IF Len(t.ch) = 0 THEN 0
            ELSE 1 + (IF Len(t.ch) = 1 THEN Depth(t.ch[1]) ELSE Max(Depth(t.ch[1]), Depth(t.ch[2])))

\* arithmetic preconditions of the constructor at the root of t
RootPre(t) ==
    CASE t.k \in {"GoodThomasAlgorithm", "GoodThomasAlgorithmSmall"} -> Gcd(TLen(t.ch[1]), TLen(t.ch[2])) = 1
      [] t.k = "RadersAlgorithm" -> IsPrime(TLen(t.ch[1]) + 1)
      [] t.k = "BluesteinsAlgorithm" -> t.len >= 1 /\ TLen(t.ch[1]) >= 2 * t.len - 1
      [] t.k = "Radix4" -> IsPow2(t.len)
      [] OTHER -> TRUE

RECURSIVE Pre(_)
Pre(t) == RootPre(t) /\ \A i \in DOMAIN t.ch : Pre(t.ch[i])

\* one level of constructors over a set of inner trees (at least one child taken from `fresh`)
PairsOf(all, fresh) ==
    UNION { {<<a, b>> : b \in {y \in (IF a \in fresh THEN all ELSE fresh) : TLen(a) * TLen(y) <= MaxLen}} : a \in all }

Wrap(all, fresh) ==
    {Node(k, 0, 0, "", <<p[1], p[2]>>) : k \in PairKinds, p \in PairsOf(all, fresh)} \cup
    {Node("RadersAlgorithm", 0, 0, "", <<a>>) : a \in {x \in fresh : TLen(x) + 1 <= MaxLen}} \cup
    {Node("BluesteinsAlgorithm", l, 0, "", <<a>>) :
        l \in {1, 2, 3, 5, 7}, a \in {x \in fresh : TLen(x) >= 9}} \cup
    {Node("BluesteinsAlgorithm", (TLen(a) + 1) \div 2, 0, "", <<a>>) : a \in {x \in fresh : TLen(x) >= 3}} \cup
    UNION {{Node("Radix4Base", 0, kk, "", <<a>>) : a \in {x \in fresh : TLen(x) * Pow(4, kk) <= MaxLen}} : kk \in {1, 2}} \cup
    UNION {{Node("Radix3Base", 0, kk, "", <<a>>) : a \in {x \in fresh : TLen(x) * Pow(3, kk) <= MaxLen}} : kk \in {1, 2}}

KindIx(k) == CASE k = "MixedRadix" -> 1 [] k = "MixedRadixSmall" -> 2 [] k = "GoodThomasAlgorithm" -> 3
               [] k = "GoodThomasAlgorithmSmall" -> 4 [] k = "RadersAlgorithm" -> 5 [] k = "BluesteinsAlgorithm" -> 6
               [] k = "Radix4Base" -> 7 [] OTHER -> 8
RECURSIVE THash(_)
THash(t) == (KindIx(t.k) * 7919 + (t.len % 9973) * 1049 + t.kk * 31 +
             (IF Len(t.ch) >= 1 THEN 131 * THash(t.ch[1]) ELSE 17) +
             (IF Len(t.ch) >= 2 THEN 257 * THash(t.ch[2]) ELSE 3)) % 9973
Sampled(t, den) == den = 1 \/ THash(t) % den = SampleRes % den

D1all == {t \in Wrap(Leaves, Leaves) : RootPre(t)}
D1    == {t \in D1all : Sampled(t, D1Den)}
\* the second level wraps (a sample of) the first level, combined with a reduced leaf set
SmallLeaves == {x \in Leaves : \/ (x.k = "Butterfly" /\ x.len \in {1, 2, 3, 4, 5, 7, 8, 16})
                                \/ (x.k = "Dft" /\ x.len \in {1, 3})
                                \/ (x.k = "Planned" /\ x.len = 30)}
D1seed == {t \in D1all : Sampled(t, SeedDen)}
D2 == IF Depth2On THEN {t \in Wrap(SmallLeaves \cup D1seed, D1seed) : RootPre(t) /\ Sampled(t, SampleDen)} ELSE {}

\* Number-theoretic sweeps: the constructors whose correctness rests on arithmetic facts about the length itself (primitive
\* roots and the factorisation of p-1 for Rader, the chirp of period 2n and the fit of the inner length for Bluestein) are
\* built for EVERY prime up to PrimeMax resp. every length up to BlueMax, over planner-produced inner transforms.
Planned(kind, l) == Node("Planned", l, 0, kind, << >>)
KindsFor(x) == IF BothKinds THEN {"scalar", "auto"} ELSE {IF x % 4 = 1 THEN "scalar" ELSE "auto"}
InnerLens(n) == IF BothKinds THEN {2 * n - 1, 2 * n, NextPow2(2 * n - 1), 3 * n}
                ELSE {CASE n % 4 = 0 -> 2 * n - 1 [] n % 4 = 1 -> 2 * n [] n % 4 = 2 -> NextPow2(2 * n - 1) [] OTHER -> 3 * n}
D3sel == {Node("RadersAlgorithm", 0, 0, "", <<Planned(k, p - 1)>>) : p \in {q \in 3..PrimeMax : IsPrime(q)}, k \in {"scalar", "auto"}} \cup
         UNION {{Node("BluesteinsAlgorithm", n, 0, "", <<Planned(k, m)>>) : m \in InnerLens(n), k \in {"scalar", "auto"}} : n \in 2..BlueMax}
D3 == {x \in D3sel : x.ch[1].pl \in KindsFor(TLen(x))}

\* Large lengths: index tables, loop counters and stack buffers sized for "small" transforms meet lengths on both sides of
\* 2^10 and 2^16 when the pair constructors are used directly (no planner builds these).
BigLeaves == {Node("Radix4", 256, 0, "", << >>), Node("Radix4", 1024, 0, "", << >>), Node("Radix4", 64, 0, "", << >>),
              Node("Radix3", 243, 0, "", << >>), Node("Butterfly", 32, 0, "", << >>), Node("Butterfly", 31, 0, "", << >>),
              Node("Butterfly", 5, 0, "", << >>), Planned("scalar", 255), Planned("auto", 257), Planned("scalar", 33),
              Node("RadersAlgorithm", 0, 0, "", <<Node("Radix4", 256, 0, "", << >>)>>)}
BigOk(l) == IF BothKinds THEN (l >= 1025 /\ l <= 2300) \/ (l >= 60000 /\ l <= 70000) \/ l = 131072
            ELSE (l >= 1025 /\ l <= 1300) \/ (l >= 65280 /\ l <= 65792)          \* quick tier: both sides of 2^10 and of 2^16
D4 == {t \in {Node(k, 0, 0, "", <<a, b>>) : k \in PairKinds, a \in BigLeaves, b \in BigLeaves} : BigOk(TLen(t)) /\ RootPre(t)}

Trees == D1 \cup D2 \cup D3 \cup D4

VARIABLE t
Init == t \in Trees
Next == UNCHANGED t
Spec == Init /\ [][Next]_t

Export(x) == PrintT(<<"SCN", ToJson(x)>>)

TreeInv ==
    /\ Pre(t)
    /\ TLen(t) >= 1 /\ TLen(t) <= Max(MaxLen * 2, Max(PrimeMax, Max(BlueMax, 131072)))
    /\ Depth(t) \in 1..2
    /\ Export(t)
=============================================================================
