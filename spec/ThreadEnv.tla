----------------------------- MODULE ThreadEnv -----------------------------
(***************************************************************************)
(* C11, "repeatedly over time": what a thread computed before must not     *)
(* influence what it computes next.  Besides the instance (Threads.tla)    *)
(* there is one more piece of state a call could leak into: the calling    *)
(* THREAD's floating-point environment (MXCSR: flush-to-zero / denormals-  *)
(* are-zero), which a new thread inherits from the thread that spawns it.  *)
(*                                                                         *)
(* Each thread makes up to MaxCalls calls, choosing an instance and an     *)
(* input class freely; threads may spawn further threads.  A call's result *)
(* depends on (instance, input, environment of the caller); the isolated   *)
(* call is the one made in the default environment.  In the code as it is  *)
(* no call writes the environment.  `LeaksEnv` switches on the defect of   *)
(* seeded change C11-4 (one kind of instance leaves flush-to-zero on):     *)
(* then some history makes a later call on subnormal data differ from the  *)
(* isolated call - in the leaking thread and in every thread it spawns.    *)
(* The harness's thread-history scenario replays exactly these histories.  *)
(***************************************************************************)
EXTENDS Naturals, Sequences, FiniteSets

CONSTANTS MaxThreads, MaxCalls, LeaksEnv

Insts  == {"plain", "bluestein"}
Inputs == {"normal", "subnormal"}
Envs   == {"default", "ftz"}

\* abstract result of a call: subnormal data is flushed to zero when the caller's environment says so
Out(inst, input, e) == IF input = "subnormal" /\ e = "ftz" THEN <<inst, "zero">> ELSE <<inst, input>>
Isolated(inst, input) == Out(inst, input, "default")

VARIABLES alive,   \* set of thread ids
          env,     \* env[t]: the thread's floating-point environment
          calls,   \* calls[t]: number of calls made
          last     \* last[t]: << >> or <<inst, input, result>> of the most recent call

vars == <<alive, env, calls, last>>
Ids == 1..MaxThreads

Init == /\ alive = {1}
        /\ env = [t \in Ids |-> "default"]
        /\ calls = [t \in Ids |-> 0]
        /\ last = [t \in Ids |-> << >>]

Call(t, inst, input) ==
    /\ t \in alive /\ calls[t] < MaxCalls
    /\ last' = [last EXCEPT ![t] = <<inst, input, Out(inst, input, env[t])>>]
    /\ calls' = [calls EXCEPT ![t] = @ + 1]
    /\ env' = IF LeaksEnv /\ inst = "bluestein" THEN [env EXCEPT ![t] = "ftz"] ELSE env
    /\ UNCHANGED alive

\* std::thread::spawn: the child starts with the parent's floating-point environment
Spawn(t, c) ==
    /\ t \in alive /\ c \in Ids \ alive
    /\ alive' = alive \cup {c}
    /\ env' = [env EXCEPT ![c] = env[t]]
    /\ UNCHANGED <<calls, last>>

Next == \/ \E t \in Ids, i \in Insts, x \in Inputs : Call(t, i, x)
        \/ \E t \in Ids, c \in Ids : Spawn(t, c)
        \/ UNCHANGED vars
Spec == Init /\ [][Next]_vars

\* every call returns what the isolated call returns, whatever the thread (or its ancestors) did before
HistoryIndependent == \A t \in alive : last[t] # << >> => last[t][3] = Isolated(last[t][1], last[t][2])
\* the library never changes the caller's environment
EnvPreserved == \A t \in alive : env[t] = "default"
Inv == HistoryIndependent /\ EnvPreserved
=============================================================================
