SPECIFICATION MCSpec
CONSTANTS
  Prop = "ALL"
  MaxPlanners = 2
  MaxInsts = 1
  MaxCalls = 1
  Lens = {0, 3}
  Features = {{}, {"sse"}, {"avx", "sse"}}
  Masks = {0, 1, 7, 15}
  MCElems = {"f32", "fp"}
INVARIANT MCInv
CHECK_DEADLOCK FALSE
