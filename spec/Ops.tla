-------------------------------- MODULE Ops --------------------------------
(***************************************************************************)
(* Faithful layer: exact count of element-type additions, subtractions and *)
(* multiplications per chunk of the portable algorithms (C05).  A complex  *)
(* multiplication is 4 multiplications + 2 additions = 6 operations, a     *)
(* complex addition 2; negation, conjugation, copies and transposes are    *)
(* free.  The kernel constants were measured once on the real kernels with *)
(* the counting element type (`rfv kernelops`); everything else follows    *)
(* from the structure of each perform_fft_*.  The count is compared with   *)
(* the measured count of every planned transform (MODEL-DRIFT on mismatch) *)
(* and the bound 64 n log2 n is model-checked on the designed trees.       *)
(***************************************************************************)
EXTENDS Recipe

CMulOps == 6
CAddOps == 2

ButterflyOps(n) ==
    CASE n = 1 -> 0 [] n = 2 -> 4 [] n = 3 -> 16 [] n = 4 -> 16 [] n = 5 -> 48 [] n = 6 -> 44 [] n = 7 -> 96 [] n = 8 -> 56
      [] n = 9 -> 120 [] n = 11 -> 240 [] n = 12 -> 112 [] n = 13 -> 336 [] n = 16 -> 172 [] n = 17 -> 576 [] n = 19 -> 720
      [] n = 23 -> 1056 [] n = 24 -> 336 [] n = 27 -> 600 [] n = 29 -> 1680 [] n = 31 -> 1920 [] n = 32 -> 464
      [] OTHER -> -1000000

RECURSIVE OpsOf(_, _)
OpsOf(t, i) ==
    LET nd == t[i]  n == NodeLen(t, i) IN
    CASE nd.k = "Dft" -> 8 * n * n
      [] nd.k = "Butterfly" -> ButterflyOps(n)
      [] nd.k \in {"MixedRadix", "MixedRadixSmall"} ->
            LET w == NodeLen(t, nd.ch[1])  h == NodeLen(t, nd.ch[2]) IN
            w * OpsOf(t, nd.ch[2]) + CMulOps * n + h * OpsOf(t, nd.ch[1])
      [] nd.k \in {"GoodThomasAlgorithm", "GoodThomasAlgorithmSmall"} ->
            LET w == NodeLen(t, nd.ch[1])  h == NodeLen(t, nd.ch[2]) IN
            w * OpsOf(t, nd.ch[2]) + h * OpsOf(t, nd.ch[1])
      [] nd.k = "RadersAlgorithm" -> 2 * OpsOf(t, nd.ch[1]) + CMulOps * (n - 1) + 2 * CAddOps
      [] nd.k = "BluesteinsAlgorithm" ->
            LET m == NodeLen(t, nd.ch[1]) IN 2 * OpsOf(t, nd.ch[1]) + CMulOps * (2 * n + m)
      [] nd.k = "Radix4" ->
            LET b == NodeLen(t, nd.ch[1]) IN
            (n \div b) * OpsOf(t, nd.ch[1]) + nd.p[1] * (n \div 4) * (3 * CMulOps + ButterflyOps(4))
      [] nd.k = "RadixN" ->
            LET b == NodeLen(t, nd.ch[1]) IN
            (n \div b) * OpsOf(t, nd.ch[1]) +
            SeqSum([j \in DOMAIN nd.p |-> (n \div nd.p[j]) * ((nd.p[j] - 1) * CMulOps + ButterflyOps(nd.p[j]))])
      [] OTHER -> -1000000

TreeOps(t) == OpsOf(t, Len(t))
\* C05: ops <= 64 n log2 n, in the fixed-point form used everywhere (never stricter than the real-valued bound)
OpBoundOk(n, ops) == n >= 2 => 16 * ops <= n * Log2Q10(n)
=============================================================================
