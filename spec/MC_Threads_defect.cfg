SPECIFICATION Spec
CONSTANTS
  Thr = {"A", "B"}
  Steps = 4
  SharedWorkspace = TRUE
  Export = FALSE
INVARIANT Inv
VIEW view
CHECK_DEADLOCK FALSE
