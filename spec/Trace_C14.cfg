SPECIFICATION TraceSpec
CONSTANT Prop = "C14"
INVARIANT TraceInv
POSTCONDITION TraceAccepted
CHECK_DEADLOCK FALSE
