---------------------------- MODULE MC_RustFFT ----------------------------
(***************************************************************************)
(* Bounded exploration of the property-layer specification: every          *)
(* interleaving of planner creation/drop, planning (with cache steps),     *)
(* and calls of every shape class on a small universe.  Confirms that the  *)
(* guards are satisfiable (no action is dead), that the state invariants   *)
(* are inductive over the API protocol, and - via the Dispatch part - that *)
(* exactly the planners allowed by the feature/capability configuration    *)
(* can ever exist (C13/C14).                                               *)
(***************************************************************************)
EXTENDS RustFFT

CONSTANTS MaxPlanners, MaxInsts, MaxCalls, Lens, Features, Masks, MCElems

Shapes(n, adv) == { [data |-> d, out |-> o, scratch |-> s] :
                      d \in {0, n, 2 * n, n + 1}, o \in {0, n, 2 * n}, s \in {adv, adv + 1} \cup (IF adv > 0 THEN {adv - 1} ELSE {}) }

MCInit == /\ \E f \in Features, m \in Masks : cfg = [features |-> f, mask |-> m]
          /\ planners = << >> /\ cache = << >> /\ insts = << >>
          /\ planning = << >> /\ pending = << >> /\ refs = << >> /\ drift = 0

ObsFor(c, inst, outcome) ==
    IF outcome = "ok" /\ c.entry = "immut" THEN <<[kind |-> "unchanged", unchanged |-> TRUE]>> ELSE << >>

MCNext ==
    \/ \E k \in Kinds, e \in MCElems :
         /\ Cardinality(DOMAIN planners) < MaxPlanners
         /\ LET pid == Cardinality(DOMAIN planners) + 1 IN
            NewPlanner(pid, k, e, ExpectedNew(k, e, cfg), ExpectedBackend(k, e, cfg))
    \/ \E p \in DOMAIN planners : DropPlanner(p)
    \/ \E p \in DOMAIN planners, n \in Lens, d \in Dirs : PlanBegin(p, n, d)
    \/ /\ planning # << >>
       /\ \E hit \in BOOLEAN :
            /\ hit = (<<planning[1].n, planning[1].dir>> \in cache[planning[1].pid])
            /\ CacheGet(planning[1].n, planning[1].dir, hit)
    \/ /\ planning # << >>
       /\ CacheInsert(planning[1].n, planning[1].dir)
    \/ /\ planning # << >>
       /\ Cardinality(DOMAIN insts) < MaxInsts
       /\ \E adv \in {0, planning[1].n} :
            PlanEnd(planning[1].pid, Cardinality(DOMAIN insts) + 1, "ok", planning[1].n, planning[1].dir, <<adv, 0, adv>>)
    \/ \E i \in DOMAIN insts, e \in Entries :
         /\ Cardinality(DOMAIN pending) < MaxCalls
         /\ \E sh \in Shapes(insts[i].len, insts[i].scr[ScratchIdx(e)]) :
              CallBegin(Cardinality(DOMAIN pending) + 1 + 10 * i, i, e, sh.data, sh.out, sh.scratch, <<0, 0>>)
    \/ \E c \in DOMAIN pending :
         LET call == pending[c]
             inst == insts[call.iid]
             adv  == inst.scr[ScratchIdx(call.entry)]
         IN \E outcome \in {"ok", "panic"} :
              /\ Ill(call, inst.len, adv) => outcome = "panic"
              /\ CallEnd(c, outcome, ObsFor(call, inst, outcome), "none", "", <<0, 0>>)

MCSpec == MCInit /\ [][MCNext]_vars

\* a well-shaped call can always complete normally, an ill-shaped one can only panic (C09 at design level)
ShapeDichotomy ==
    \A c \in DOMAIN pending :
        LET call == pending[c] inst == insts[call.iid] adv == inst.scr[ScratchIdx(call.entry)] IN
        ~(Well(call, inst.len, adv) /\ Ill(call, inst.len, adv))

MCInv == TypeOk /\ C04_Inv /\ C13_Inv /\ PendingInv /\ ShapeDichotomy /\ drift = 0
=============================================================================
