SPECIFICATION Spec
CONSTANTS
  P = 20161
  BigN = 20160
  GRe = 15515
  GIm = 8338
  G <- GPair
  MaxLen = 24
INVARIANT Inv
CHECK_DEADLOCK FALSE
