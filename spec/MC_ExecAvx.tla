----------------------------- MODULE MC_ExecAvx -----------------------------
(***************************************************************************)
(* C01 / C06 at design level for the AVX kernels: the vector-register      *)
(* level models of Exec.tla (column groups, partial remainder groups,      *)
(* twiddle-chunk indexing, packed transposes, Rader gather/scatter index   *)
(* vectors, Bluestein padded twiddles / remainder / zero fill) compute the *)
(* DFT exactly over GF(P)[i] for every row count the crate instantiates,   *)
(* every row length residue modulo the vector width, both vector widths    *)
(* (W = 4: f32, W = 2: f64), both directions, on the whole impulse basis.  *)
(* Every store list stays in range and writes each cell exactly once.      *)
(***************************************************************************)
EXTENDS Exec, TLC

CONSTANTS MaxLen, GRe, GIm
GPair == <<GRe, GIm>>

Leaf(n) == [k |-> "Dft", len |-> n, fs |-> << >>, ch |-> << >>]
AvxRadix(r, inner, w) == [k |-> "AvxRadix", len |-> r * inner.len, fs |-> <<r>>, ch |-> <<inner>>, w |-> w]
AvxRaders(inner, w) == [k |-> "AvxRaders", len |-> inner.len + 1, fs |-> << >>, ch |-> <<inner>>, w |-> w]
AvxBluesteins(n, inner, w) == [k |-> "AvxBluesteins", len |-> n, fs |-> << >>, ch |-> <<inner>>, w |-> w]

Rows == {2, 3, 4, 5, 6, 7, 8, 9, 11, 12, 16}
Widths == {2, 4}
RowLens == 1..9                       \* every residue modulo 4 twice, modulo 2 four times

D1 == {AvxRadix(r, Leaf(l), w) : r \in Rows, l \in RowLens, w \in Widths}
      \cup {AvxRaders(Leaf(p - 1), w) : p \in {3, 5, 7, 11, 13}, w \in Widths}
      \cup {AvxBluesteins(q[1], Leaf(q[2]), w) : q \in {<<2, 4>>, <<3, 8>>, <<4, 8>>, <<5, 12>>, <<6, 12>>, <<7, 16>>, <<8, 16>>,
                                                        <<9, 20>>, <<10, 20>>, <<3, 12>>, <<5, 16>>, <<11, 24>>, <<13, 28>>, <<6, 16>>}, w \in Widths}
\* stages stacked as the planner stacks them: a radix stage over a radix stage, over a Rader base, over a Bluestein base
D2 == {AvxRadix(r2, AvxRadix(r1, Leaf(l), w), w) : r2 \in {2, 3, 4}, r1 \in {2, 3, 4, 8}, l \in {1, 2, 3, 5}, w \in Widths}
      \cup {AvxRadix(r, AvxRaders(Leaf(p - 1), w), w) : r \in {2, 3, 4}, p \in {5, 7, 11}, w \in Widths}
      \cup {AvxRadix(r, AvxBluesteins(q[1], Leaf(q[2]), w), w) : r \in {2, 3}, q \in {<<5, 12>>, <<7, 16>>}, w \in Widths}
      \cup {AvxRaders(AvxRadix(r, Leaf(l), w), w) : r \in {2, 3, 4, 6}, l \in {1, 2, 3}, w \in Widths}
      \cup {AvxBluesteins(5, AvxRadix(4, Leaf(3), w), w) : w \in Widths}
      \cup {AvxBluesteins(7, AvxRadix(4, Leaf(4), w), w) : w \in Widths}

RECURSIVE FitsAll(_)
FitsAll(x) == /\ BigN % x.len = 0
              /\ (x.k = "AvxBluesteins" => BigN % (2 * x.len) = 0)
              /\ (x.k = "AvxRaders" => IsPrime(x.len))
              /\ \A i \in DOMAIN x.ch : FitsAll(x.ch[i])
Universe == {x \in D1 \cup D2 : x.len <= MaxLen /\ FitsAll(x)}

ASSUME /\ IsPrime(P) /\ (P - 1) % BigN = 0
       /\ CPow(G, BigN, P) = COne
       /\ \A q \in {d \in 2..BigN : BigN % d = 0 /\ IsPrime(d)} : CPow(G, BigN \div q, P) # COne
       /\ CMul(G, CConj(G, P), P) = COne

VARIABLES t, inv, verdict
Init == t \in Universe /\ inv \in BOOLEAN /\ verdict = "todo"
IsDft == \A j \in 0..(t.len - 1) : Run(t, Impulse(t.len, j), inv) = DftColumn(t.len, j, inv)
RoundTrip == \A j \in {0, t.len - 1} :
                Run(t, Run(t, Impulse(t.len, j), inv), ~inv) = [i \in 1..t.len |-> CScale(Impulse(t.len, j)[i], t.len, P)]
Next == /\ verdict = "todo"
        /\ verdict' = IF IsDft /\ RoundTrip THEN "dft" ELSE "WRONG"
        /\ UNCHANGED <<t, inv>>
Spec == Init /\ [][Next]_<<t, inv, verdict>>
Inv == verdict # "WRONG"
\* anti-vacuity: the universe is not empty and contains every row count with every remainder for both widths
ASSUME (BigN % 64 = 0 /\ BigN % 9 = 0 /\ BigN % 35 = 0 /\ MaxLen >= 64) => \A r \in Rows \ {11} : \A w \in Widths : \A rem \in 0..(w - 1) :
          \E x \in Universe : x.k = "AvxRadix" /\ x.fs[1] = r /\ x.w = w /\ x.ch[1].len % w = rem
=============================================================================
