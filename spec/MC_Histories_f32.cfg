SPECIFICATION Spec
CONSTANTS
  Pool = {12, 36, 72, 144, 288, 576, 1152, 3456, 37, 73, 2048, 8192, 360, 2520, 94, 8, 256, 4096}
  MaxHist = 3
  Elem = "f32"
  Avx2 = TRUE
  Export = TRUE
INVARIANT Inv
CHECK_DEADLOCK FALSE
