------------------------------ MODULE Scratch ------------------------------
(***************************************************************************)
(* Faithful layer: the scratch plumbing of the portable algorithms         *)
(* (C08 "the advertised size suffices", C03 "every split stays in range"). *)
(*                                                                         *)
(* Every transform advertises three scratch lengths <<ip, oop, im>> for    *)
(* the in-place, out-of-place and immutable-input entry points.  A wrapper *)
(* algorithm derives its own three numbers from its children's at          *)
(* construction (Scr) and, at run time, hands each child either a piece of *)
(* its caller's scratch or one of the caller's data buffers as workspace   *)
(* (Calls).  Suffices says that with exactly the advertised scratch every  *)
(* split_at_mut is in range and every child call receives at least what    *)
(* the child advertises for the entry point used.                          *)
(* Transcribed from the constructors and perform_fft_* of                  *)
(* src/algorithm/{mixed_radix, good_thomas_algorithm, raders_algorithm,    *)
(* bluesteins_algorithm, radix4, radix3, radixn, dft}.rs and the           *)
(* boilerplate_fft_oop! macro of src/common.rs.                            *)
(*                                                                         *)
(* A child is a record [len |-> n, scr |-> <<ip, oop, im>>].               *)
(***************************************************************************)
EXTENDS Arith

IP == 1
OOP == 2
IM == 3

\* kinds whose in-place entry is implemented by boilerplate_fft_oop!: scratch = [self (len) | inner], then out-of-place
OopBoiler == {"Radix4", "Radix3", "RadixN", "Dft"}

(***************************************************************************)
(* Advertised scratch lengths by constructor formula.                      *)
(* For GoodThomasAlgorithm the constructor swaps the children so that      *)
(* width <= height; `w` and `h` below are the children AFTER the swap.     *)
(***************************************************************************)
GtW(ch) == IF ch[1].len > ch[2].len THEN ch[2] ELSE ch[1]
GtH(ch) == IF ch[1].len > ch[2].len THEN ch[1] ELSE ch[2]

\* AVX mixed-radix stages (src/avx/avx_mixed_radix.rs, mixedradix_gen_data!): Rxn over an inner transform
AvxRadixScr(len, inner) == << len + inner[OOP], IF inner[IP] > len THEN inner[IP] ELSE 0, len + inner[IP] >>

\* RadersAvx2 (src/avx/avx_raders.rs) and BluesteinsAvx (src/avx/avx_bluesteins.rs)
AvxRadersScr(inner) ==
    LET extra == IF inner.scr[IP] <= inner.len THEN 0 ELSE inner.scr[IP] IN
    << inner.len + 1 + extra, extra, inner.len + inner.scr[IP] + 1 >>
AvxBluesteinsScr(inner) == LET m == inner.len + inner.scr[IP] IN <<m, m, m>>
\* the immutable path of RadersAvx2 runs its FIRST inner FFT with scratch2[1..] (inner.len elements) as the inner scratch:
\* the planner must never put an inner transform there that needs more in-place scratch than its own length
AvxRadersPre(ch) == ch[1].scr[IP] <= ch[1].len

Scr(k, len, ch) ==
    CASE k \in {"Butterfly", "PrimeButterfly", "ButterflyBase"} -> <<0, 0, 0>>
      [] k = "AvxRaders" -> AvxRadersScr(ch[1])
      [] k = "AvxBluesteins" -> AvxBluesteinsScr(ch[1])
      [] k = "Dft" -> <<len, 0, 0>>
      [] k = "MixedRadix" ->
            LET w2 == ch[1] h2 == ch[2] IN
            << len + Max(IF h2.scr[IP] > len THEN h2.scr[IP] ELSE 0, w2.scr[OOP]),
               IF Max(h2.scr[IP], w2.scr[IP]) > len THEN Max(h2.scr[IP], w2.scr[IP]) ELSE 0,
               Max(len + w2.scr[IP], h2.scr[IP]) >>
      [] k = "GoodThomasAlgorithm" ->
            LET w3 == GtW(ch) h3 == GtH(ch) IN
            << len + Max(IF w3.scr[IP] > len THEN w3.scr[IP] ELSE 0, h3.scr[OOP]),
               IF Max(h3.scr[IP], w3.scr[IP]) > len THEN Max(h3.scr[IP], w3.scr[IP]) ELSE 0,
               Max(w3.scr[IP], len + h3.scr[IP]) >>
      [] k \in {"MixedRadixSmall", "GoodThomasAlgorithmSmall"} -> <<len, 0, len>>
      [] k = "RadersAlgorithm" ->
            LET inner5 == ch[1]
                extra5 == IF inner5.scr[IP] <= inner5.len THEN 0 ELSE inner5.scr[IP]
            IN <<inner5.len + extra5, extra5, inner5.len + inner5.scr[IP]>>
      [] k = "BluesteinsAlgorithm" ->
            LET m6 == ch[1].len + ch[1].scr[IP] IN <<m6, m6, m6>>
      [] k = "AvxRadix" -> AvxRadixScr(len, ch[1].scr)
      [] k \in {"Radix4", "Radix3", "RadixN"} ->
            LET b7 == ch[1].scr[IP] IN
            << IF b7 > len THEN len + b7 ELSE len, IF b7 > len THEN b7 ELSE 0, b7 >>

\* preconditions of the *Small algorithms on their children (constructor asserts)
SmallPre(ch) == \A i \in DOMAIN ch : ch[i].scr[OOP] = 0 /\ ch[i].scr[IP] <= ch[i].len

(***************************************************************************)
(* The child calls made by perform_fft_* when the node is entered through  *)
(* `entry` with S elements of scratch: a set of                            *)
(*    [c |-> child, e |-> child entry, given |-> scratch length it gets,   *)
(*     ok |-> the split that produced it was in range]                     *)
(***************************************************************************)
Call(c, e, given, ok7) == [c |-> c, e |-> e, given |-> given, ok |-> ok7]

Calls(k, len, ch, entry, S) ==
    CASE k \in {"Butterfly", "PrimeButterfly", "ButterflyBase"} -> {}
      [] k = "AvxRaders" ->
            LET inner16 == ch[1] IN
            (CASE entry = IP ->
                   \* scratch.split_at_mut(len); both inner FFTs run on scratch[1..] with the extra scratch, or with the buffer
                   LET extra16 == S - len IN { Call(inner16, IP, IF extra16 > 0 THEN extra16 ELSE len, S >= len) }
              [] entry = OOP -> { Call(inner16, IP, IF S > 0 THEN S ELSE inner16.len, TRUE) }
              [] entry = IM  ->
                   \* scratch.split_at_mut(len): first inner FFT on output[1..] with scratch2[1..], second on scratch2[1..] with the rest
                   { Call(inner16, IP, inner16.len, S >= len), Call(inner16, IP, S - len, S >= len) })
      [] k = "AvxBluesteins" ->
            \* all three entries: scratch.split_at_mut(inner len), inner FFT in place on the first part with the rest
            { Call(ch[1], IP, S - ch[1].len, S >= ch[1].len) }
      [] k = "Dft" -> {}
      [] k = "MixedRadix" ->
            LET w9 == ch[1] h9 == ch[2] IN
            (CASE entry = IP ->
                   \* scratch.split_at_mut(len); height in-place with inner9 scratch if it is longer than the buffer,
                   \* otherwise with the buffer itself; width out-of-place with the inner9 scratch
                   LET ok9 == S >= len inner9 == S - len IN
                   { Call(h9, IP, IF inner9 > len THEN inner9 ELSE len, ok9), Call(w9, OOP, inner9, ok9) }
              [] entry = OOP ->
                   { Call(h9, IP, IF S > len THEN S ELSE len, TRUE), Call(w9, IP, IF S > len THEN S ELSE len, TRUE) }
              [] entry = IM ->
                   { Call(h9, IP, S, TRUE), Call(w9, IP, S - len, S >= len) })
      [] k = "GoodThomasAlgorithm" ->
            LET w10 == GtW(ch) h10 == GtH(ch) IN
            (CASE entry = IP ->
                   LET ok10 == S >= len inner10 == S - len IN
                   { Call(w10, IP, IF inner10 > len THEN inner10 ELSE len, ok10), Call(h10, OOP, inner10, ok10) }
              [] entry = OOP ->
                   { Call(w10, IP, IF S > len THEN S ELSE len, TRUE), Call(h10, IP, IF S > len THEN S ELSE len, TRUE) }
              [] entry = IM ->
                   { Call(w10, IP, S, TRUE), Call(h10, IP, S - len, S >= len) })
      [] k = "MixedRadixSmall" ->
            \* the other data buffer (len elements) is the inner11 workspace; the width FFT runs out-of-place with no scratch
            (CASE entry = IP  -> { Call(ch[2], IP, len, S >= len), Call(ch[1], OOP, 0, TRUE) }
              [] entry = OOP -> { Call(ch[2], IP, len, TRUE), Call(ch[1], IP, len, TRUE) }
              [] entry = IM  -> { Call(ch[2], IP, S, TRUE), Call(ch[1], IP, len, S >= len) })
      [] k = "GoodThomasAlgorithmSmall" ->
            \* same plumbing with the roles of the two children exchanged (width first, height out-of-place)
            (CASE entry = IP  -> { Call(ch[1], IP, len, S >= len), Call(ch[2], OOP, 0, TRUE) }
              [] entry = OOP -> { Call(ch[1], IP, len, TRUE), Call(ch[2], IP, len, TRUE) }
              [] entry = IM  -> { Call(ch[1], IP, S, TRUE), Call(ch[2], IP, len, S >= len) })
      [] k = "RadersAlgorithm" ->
            LET inner13 == ch[1] IN
            (CASE entry = IP ->
                   LET extra13 == S - inner13.len IN
                   { Call(inner13, IP, IF extra13 > 0 THEN extra13 ELSE inner13.len, S >= inner13.len) }
              [] entry = OOP -> { Call(inner13, IP, IF S > 0 THEN S ELSE inner13.len, TRUE) }
              [] entry = IM  -> { Call(inner13, IP, S - inner13.len, S >= inner13.len) })
      [] k = "BluesteinsAlgorithm" ->
            { Call(ch[1], IP, S - ch[1].len, S >= ch[1].len) }
      [] k \in {"Radix4", "Radix3", "RadixN"} ->
            (CASE entry = IP ->
                   \* boilerplate_fft_oop!: split off `len` as the output buffer, then perform_fft_out_of_place
                   LET inner15 == S - len IN { Call(ch[1], IP, IF inner15 > 0 THEN inner15 ELSE len, S >= len) }
              [] entry = OOP -> { Call(ch[1], IP, IF S > 0 THEN S ELSE len, TRUE) }
              [] entry = IM  -> { Call(ch[1], IP, S, TRUE) })

\* AVX mixed-radix stage: column butterflies (no child call), then the row FFTs with the inner transform, then a transpose
AvxRadixCalls(len, ch, entry, S) ==
    CASE entry = IP  -> { Call(ch[1], OOP, S - len, S >= len) }                        \* buffer -> Z[..len] out of place, scratch Z[len..]
      [] entry = OOP -> { Call(ch[1], IP, IF S > 0 THEN S ELSE len, TRUE) }             \* in place on the input; scratch Z, else the output buffer
      [] entry = IM  -> { Call(ch[1], IP, S - len, S >= len) }                          \* in place on Z[..len]; scratch Z[len..]

AllCalls(k, len, ch, entry, S) == IF k = "AvxRadix" THEN AvxRadixCalls(len, ch, entry, S) ELSE Calls(k, len, ch, entry, S)

Suffices(k, len, ch) ==
    \A entry \in {IP, OOP, IM} :
        \A call \in AllCalls(k, len, ch, entry, Scr(k, len, ch)[entry]) :
            call.ok /\ call.given >= call.c.scr[call.e]

\* a longer caller scratch changes nothing: the helpers trim it to the advertised length first (array_utils.rs)
TrimmedScratch(advertised, given) == IF given >= advertised THEN advertised ELSE given
=============================================================================
