------------------------------ MODULE PlannerSse ------------------------------
(***************************************************************************)
(* Faithful layer: transcription of FftPlannerSse's recipe design          *)
(* (src/sse/sse_planner.rs: design_fft_for_len, design_fft_with_factors,   *)
(* design_mixed_radix, design_butterfly_algorithm, design_prime,           *)
(* design_radix4).  Panics of the code are explicit Panic nodes.           *)
(***************************************************************************)
EXTENDS PlannerScalar

MinRadix4Bits == 6
SseHandButterflies  == {1, 2, 3, 4, 5, 6, 8, 9, 10, 12, 15, 16, 24, 32}
SsePrimeButterflies == {7, 11, 13, 17, 19, 23, 29, 31}
\* all_butterflies of the planner object: hand butterflies (without 1) and prime butterflies, ascending
SseAllButterflies == <<2, 3, 4, 5, 6, 7, 8, 9, 10, 11, 12, 13, 15, 16, 17, 19, 23, 24, 29, 31, 32>>

\* the "two butterflies" search keeps the LAST pair (l, r) with l | len, r = len/l a butterfly at or after l's position
RECURSIVE SseLastPair(_, _, _)
SseLastPair(len, i, best) ==
    IF i > Len(SseAllButterflies) THEN best
    ELSE LET l == SseAllButterflies[i] r == len \div l IN
         IF len % l = 0 /\ \E j \in i..Len(SseAllButterflies) : SseAllButterflies[j] = r
         THEN SseLastPair(len, i + 1, <<l, r>>)
         ELSE SseLastPair(len, i + 1, best)

RECURSIVE SseForLen(_), SseWithFactors(_), SsePrime(_), SseMixedRadix(_, _)

SseRadix4(n) ==
    IF ~(Rest(n) = 1 /\ P3(n) < 2) THEN PanicTree(11)
    ELSE LET p2 == P2(n)
             base == IF P3(n) = 0
                     THEN (CASE p2 = 0 -> 1 [] p2 = 1 -> 2 [] p2 = 2 -> 4 [] p2 = 3 -> 8
                             [] OTHER -> IF p2 % 2 = 1 THEN 32 ELSE 16)
                     ELSE (CASE p2 = 0 -> 3 [] p2 = 1 -> 6
                             [] OTHER -> IF p2 % 2 = 1 THEN 24 ELSE 12)
             cross == n \div base
         IN IF n % base # 0 \/ ~IsPow2(cross) THEN PanicTree(12)
            ELSE IF TrailingZeros(cross) % 2 # 0 THEN PanicTree(13)
            ELSE Unary("Radix4", <<TrailingZeros(cross) \div 2>>, SseForLen(base))

SseForLen(len) == IF len < 1 THEN Leaf("Dft", <<len>>) ELSE SseWithFactors(len)

SseWithFactors(len) ==
    IF len \in SseHandButterflies THEN Leaf("Butterfly", <<len>>)
    ELSE IF len \in SsePrimeButterflies THEN Leaf("PrimeButterfly", <<len>>)
    ELSE IF IsPrimeFactors(len) THEN SsePrime(len)
    ELSE IF P2(len) >= MinRadix4Bits THEN
        IF Rest(len) = 1 /\ P3(len) < 2 THEN SseRadix4(len)
        ELSE SseMixedRadix(Pow(2, P2(len)), len \div Pow(2, P2(len)))
    ELSE LET bp == IF len > 13 /\ len <= 1024 THEN SseLastPair(len, 1, << >>) ELSE << >> IN
         IF bp # << >> THEN SseMixedRadix(bp[1], bp[2])
         ELSE LET pf == PartitionFactors(len) IN SseMixedRadix(pf[1], pf[2])

SseMixedRadix(l, r) ==
    LET lt == SseWithFactors(l)
        rt == SseWithFactors(r)
    IN IF l < 33 /\ r < 33
       THEN Pair(IF Gcd(l, r) = 1 THEN "GoodThomasAlgorithmSmall" ELSE "MixedRadixSmall", lt, rt)
       ELSE Pair("MixedRadix", lt, rt)

SsePrime(len) ==
    LET inner == len - 1 IN
    IF \E i \in DOMAIN OtherFactors(inner) : OtherFactors(inner)[i].value > MaxRaderPrimeFactor
    THEN LET minInner == 2 * len - 1
             pow2     == NextPow2(minInner)
             f3       == (pow2 \div 4) * 3
             innerLen == IF f3 >= minInner THEN f3 ELSE pow2
         IN Unary("BluesteinsAlgorithm", <<len>>, SseForLen(innerLen))
    ELSE Unary("RadersAlgorithm", << >>, SseWithFactors(inner))

SsePlan(n) == SseForLen(n)
=============================================================================
