------------------------------- MODULE MulRem -------------------------------
(***************************************************************************)
(* VectorizedMultiplyMod (src/avx/avx_raders.rs): the strength-reduced     *)
(* (a * b) mod d that steps the gather indexes of RadersAvx2, transcribed  *)
(* with the machine word as a parameter: lanes are 2S bits wide, operands  *)
(* of the widening multiply are S bits (S = 32 in the code).               *)
(*                                                                         *)
(*   new:      b := b mod d;  intermediate := floor(b * 2^S / d)           *)
(*   mul_rem:  quotient  := (a * intermediate) >> S                        *)
(*             remainder := a * b - quotient * d                           *)
(*             result    := IF remainder - d < 0 THEN remainder            *)
(*                          ELSE remainder - d          (blendv on sign)   *)
(*                                                                         *)
(* Checked by TLC for EVERY divisor below 2^(S-1) (the constructor's       *)
(* assert: one leading zero bit) and every a, b below the divisor, for     *)
(* S = 6, 7, 8: the result is (a*b) mod d; every operand of a widening     *)
(* multiply fits S bits; no 2S-bit lane overflows; the quotient estimate   *)
(* is low by at most one, so ONE conditional subtraction suffices and the  *)
(* subtraction is needed (dropping it is wrong for some operands).         *)
(***************************************************************************)
EXTENDS Naturals, Integers

CONSTANT S
RECURSIVE P2(_)
P2(k) == IF k = 0 THEN 1 ELSE 2 * P2(k - 1)

Intermediate(b, d) == ((b % d) * P2(S)) \div d
Quotient(a, b, d) == (a * Intermediate(b, d)) \div P2(S)
Remainder(a, b, d) == a * (b % d) - Quotient(a, b, d) * d
MulRemOf(a, b, d) == LET r == Remainder(a, b, d) IN IF r - d < 0 THEN r ELSE r - d

VARIABLES d, ok
Init == d \in 2..(P2(S - 1) - 1) /\ ok = "todo"
Good(dd) == \A a \in 0..(dd - 1) : \A b \in 0..(dd - 1) :
               /\ Intermediate(b, dd) < P2(S)                       \* operand of _mm256_mul_epu32
               /\ a * Intermediate(b, dd) < P2(2 * S)               \* lane width
               /\ Quotient(a, b, dd) < P2(S)                        \* operand of the second multiply
               /\ Remainder(a, b, dd) \in 0..(2 * dd - 1)           \* estimate low by at most one
               /\ MulRemOf(a, b, dd) = (a * b) % dd
Next == ok = "todo" /\ ok' = (IF Good(d) THEN "good" ELSE "BAD") /\ UNCHANGED d
Spec == Init /\ [][Next]_<<d, ok>>
Inv == ok # "BAD"
\* the correction step is not dead code: for some divisor the uncorrected remainder is >= d
CorrectionNeeded == \E dd \in 2..(P2(S - 1) - 1) : \E a \in 0..(dd - 1) : \E b \in 0..(dd - 1) : Remainder(a, b, dd) >= dd
ASSUME CorrectionNeeded
=============================================================================
