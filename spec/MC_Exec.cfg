SPECIFICATION Spec
CONSTANTS
  P = 20161
  BigN = 10080
  G <- GConst
  MaxD1Len = 1000
INVARIANT Inv
CHECK_DEADLOCK FALSE
