SPECIFICATION Spec
CONSTANTS
  MinP = 3
  MaxP = 1600
  Strict = FALSE
INVARIANTS FactorsOk RootOk LoopInv
CHECK_DEADLOCK FALSE
