SPECIFICATION Spec
CONSTANTS
  MaxThreads = 3
  MaxCalls = 3
  LeaksEnv = FALSE
INVARIANT Inv
CHECK_DEADLOCK FALSE
