SPECIFICATION Spec
CONSTANTS
  MaxLen = 512
  D1Den = 3
  SeedDen = 5
  SampleDen = 11
  SampleRes = 0
  Depth2On = TRUE
  PrimeMax = 20000
  BlueMax = 600
  BothKinds = TRUE
INVARIANT TreeInv
CHECK_DEADLOCK FALSE
