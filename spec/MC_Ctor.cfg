SPECIFICATION Spec
CONSTANTS
  MaxLen = 512
  D1Den = 1
  SeedDen = 2
  SampleDen = 3
  SampleRes = 0
  Depth2On = TRUE
  PrimeMax = 40000
  BlueMax = 1100
  BothKinds = TRUE
INVARIANT TreeInv
CHECK_DEADLOCK FALSE
