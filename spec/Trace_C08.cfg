SPECIFICATION TraceSpec
CONSTANT Prop = "C08"
INVARIANT TraceInv
POSTCONDITION TraceAccepted
CHECK_DEADLOCK FALSE
