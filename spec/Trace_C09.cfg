SPECIFICATION TraceSpec
CONSTANT Prop = "C09"
INVARIANT TraceInv
POSTCONDITION TraceAccepted
CHECK_DEADLOCK FALSE
