SPECIFICATION Spec
CONSTANTS
  NMax = 1024
  Extra = {65536, 65537, 49152, 9973, 10007, 30030, 32805, 46189, 131071, 177147}
  Variants = {"scalar", "sse", "avx32", "avx64", "avx32-noavx2", "avx64-noavx2"}
INVARIANT PlanInv
CHECK_DEADLOCK FALSE
