------------------------------ MODULE Threads ------------------------------
(***************************************************************************)
(* C11: several threads call one shared transform instance concurrently.   *)
(*                                                                         *)
(* A call is a sequence of yield-point steps (one per chunk at every       *)
(* nesting level - exactly where hook H4 fires).  In each step a thread    *)
(* reads the instance's tables and its own buffers and writes only its own *)
(* buffers.  `SharedWorkspace` switches on a hypothetical defect - a piece *)
(* of per-instance workspace (interior mutability) that steps write and    *)
(* read back - to show that the invariant really depends on the schedule:  *)
(* with it the invariant fails on some interleavings, without it (the code *)
(* as it is: no Cell/RefCell/Mutex/atomics/static mut reachable from any   *)
(* transform) it holds on all.                                             *)
(*                                                                         *)
(* The model also enumerates the schedules that the harness forces on the  *)
(* real library through the yield hook: every complete interleaving of two *)
(* calls is exported as run-length segments <<thread, steps>>.             *)
(***************************************************************************)
EXTENDS Naturals, Sequences, FiniteSets, TLC, Json

CONSTANTS Thr, Steps, SharedWorkspace, LazyTable, Export

VARIABLES table,   \* hypothetical lazily built per-instance table: "none" -> "claimed" (being built by one call) -> "ready"
          pc,      \* pc[t] = number of steps thread t has completed
          acc,     \* acc[t] = the thread's own partial result (a checksum of what it computed so far)
          ws,      \* the hypothetical shared workspace cell
          sched    \* history: run-length encoded schedule so far (hidden from the state fingerprint by VIEW)

vars == <<table, pc, acc, ws, sched>>
view == <<table, pc, acc, ws>>

Input(t)  == IF t = "A" THEN 3 ELSE 5            \* each thread transforms its own data
Table(i)  == 7 * i + 1                           \* read-only instance tables (twiddles, index maps)
\* what step i contributes to thread t's result in an isolated call
Contribution(t, i) == Input(t) * Table(i)
RECURSIVE SumTo(_, _)
SumTo(t, i) == IF i = 0 THEN 0 ELSE SumTo(t, i - 1) + Contribution(t, i)
Sem(t) == SumTo(t, Steps)                        \* result of the call when run alone

Init == /\ table = (IF LazyTable THEN "none" ELSE "ready") /\ pc = [t \in Thr |-> 0] /\ acc = [t \in Thr |-> 0] /\ ws = 0 /\ sched = << >>

Extend(s, t) == IF s # << >> /\ s[Len(s)][1] = t
                THEN [s EXCEPT ![Len(s)] = <<t, s[Len(s)][2] + 1>>]
                ELSE Append(s, <<t, 1>>)

\* one yield-point step of thread t
Step(t) ==
    /\ pc[t] < Steps
    /\ LET i == pc[t] + 1
           \* second hypothetical defect: the instance builds a table on first use; the flag marks "claimed", not "ready",
           \* so a call that overlaps the builder's first call skips the initialisation and reads an empty table
           usesEmptyTable == LazyTable /\ i = 1 /\ table = "claimed"
       IN
       /\ table' = IF LazyTable /\ i = 1 /\ table = "none" THEN "claimed"
                   ELSE IF LazyTable /\ i = 2 /\ table = "claimed" /\ acc[t] # 0 THEN "ready"     \* the builder finishes in its second step
                   ELSE table
       /\ IF SharedWorkspace
          THEN \* defective variant: the step parks its operand in the shared cell in one step and uses it in the next
               /\ ws' = Input(t)
               /\ acc' = [acc EXCEPT ![t] = @ + (IF i = 1 THEN Input(t) ELSE ws) * Table(i)]
          ELSE /\ acc' = [acc EXCEPT ![t] = @ + (IF usesEmptyTable THEN 0 ELSE Contribution(t, i))]
               /\ UNCHANGED ws
    /\ pc' = [pc EXCEPT ![t] = @ + 1]
    /\ sched' = Extend(sched, t)

Done == \A t \in Thr : pc[t] = Steps
Next == (\E t \in Thr : Step(t)) \/ (Done /\ UNCHANGED vars)
Spec == Init /\ [][Next]_vars

\* every completed call returns what the isolated call returns, whatever the interleaving
Deterministic == \A t \in Thr : pc[t] = Steps => acc[t] = Sem(t)
\* the instance is never written: in the correct variant ws keeps its initial value
InstanceImmutable == (~SharedWorkspace => ws = 0) /\ (~LazyTable => table = "ready")

ExportSchedule == Done /\ Export => PrintT(<<"SCN", ToJson(sched)>>)
Inv == Deterministic /\ InstanceImmutable /\ ExportSchedule
=============================================================================
