---------------------------- MODULE ShapeLemmas ----------------------------
(***************************************************************************)
(* TLAPS-checked lemmas about the call-shape predicates of C09 (the same   *)
(* definitions as in RustFFT.tla / CallProtocol.tla, restated over plain   *)
(* naturals): for ALL lengths, a shape is never both well- and ill-formed, *)
(* every non-empty shape is one or the other, and whenever the validation  *)
(* stage reports an error for one of its two non-loop reasons the error    *)
(* function's asserts fire (the loop reason is the Apalache lemma          *)
(* CallLoop!ExitOk).      Check:  tlapm --threads 8 ShapeLemmas.tla         *)
(***************************************************************************)
EXTENDS Naturals, TLAPS

Well(n, data, out, scratch, adv, twoBuf, hasScratch) ==
    /\ IF n = 0 THEN data = 0 ELSE data > 0 /\ data % n = 0
    /\ twoBuf => out = data
    /\ hasScratch => scratch >= adv

Ill(n, data, out, scratch, adv, twoBuf, hasScratch) ==
    /\ n > 0
    /\ \/ data > 0 /\ data % n # 0
       \/ twoBuf /\ out # data
       \/ hasScratch /\ scratch < adv

THEOREM Dichotomy ==
    ASSUME NEW n \in Nat, NEW data \in Nat, NEW out \in Nat, NEW scratch \in Nat, NEW adv \in Nat,
           NEW twoBuf \in BOOLEAN, NEW hasScratch \in BOOLEAN
    PROVE  ~(Well(n, data, out, scratch, adv, twoBuf, hasScratch) /\ Ill(n, data, out, scratch, adv, twoBuf, hasScratch))
BY DEF Well, Ill

THEOREM Totality ==
    ASSUME NEW n \in Nat, NEW data \in Nat, NEW out \in Nat, NEW scratch \in Nat, NEW adv \in Nat,
           NEW twoBuf \in BOOLEAN, NEW hasScratch \in BOOLEAN, n > 0, data > 0
    PROVE  Well(n, data, out, scratch, adv, twoBuf, hasScratch) \/ Ill(n, data, out, scratch, adv, twoBuf, hasScratch)
BY DEF Well, Ill

\* the asserts of fft_error_outofplace / fft_error_immut (common.rs), as a predicate "some assert fires"
ErrorFnPanics(n, data, out, scratch, adv) ==
    \/ data # out
    \/ data < n
    \/ data % n # 0
    \/ scratch < adv

\* the two non-loop reasons for which validate_and_zip* returns Err
THEOREM EarlyErrorsPanic ==
    ASSUME NEW n \in Nat, NEW data \in Nat, NEW out \in Nat, NEW scratch \in Nat, NEW adv \in Nat, n > 0,
           scratch < adv \/ data # out
    PROVE  ErrorFnPanics(n, data, out, scratch, adv)
BY DEF ErrorFnPanics

\* and the loop reason: a remainder 0 < r < n is left, i.e. data = q*n + r
THEOREM RemainderErrorPanics ==
    ASSUME NEW n \in Nat, NEW data \in Nat, NEW out \in Nat, NEW scratch \in Nat, NEW adv \in Nat, n > 0,
           data % n # 0
    PROVE  ErrorFnPanics(n, data, out, scratch, adv)
BY DEF ErrorFnPanics

\* C05 scratch bound is monotone: a transform within the bound stays within it for any larger length
THEOREM BoundMonotone ==
    ASSUME NEW n \in Nat, NEW m \in Nat, NEW s \in Nat, n <= m, s <= 12 * n + 64
    PROVE  s <= 12 * m + 64
OBVIOUS
=============================================================================
