SPECIFICATION Spec
CONSTANTS
  Thr = {"A", "B"}
  Steps = 4
  LazyTable = TRUE
  SharedWorkspace = FALSE
  Export = FALSE
INVARIANT Inv
VIEW view
CHECK_DEADLOCK FALSE
