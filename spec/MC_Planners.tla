---------------------------- MODULE MC_Planners ----------------------------
(***************************************************************************)
(* Design-level check of the faithful planner models: for every length n   *)
(* in the sweep and every planner variant the designed plan contains no    *)
(* Panic node (C04), has length n, satisfies every constructor             *)
(* precondition (WellFormed), and has no naive node above 32 (C05).        *)
(* One initial state per (variant, n).                                     *)
(***************************************************************************)
EXTENDS PlannerAvx, TLC

CONSTANTS NMax, Extra, Variants

VARIABLES n, variant
Lens == (0..NMax) \cup Extra
Init == n \in Lens /\ variant \in Variants
Next == UNCHANGED <<n, variant>>
Spec == Init /\ [][Next]_<<n, variant>>

PlanOf(v, len) == CASE v = "scalar" -> ScalarPlan(len)
                    [] v = "sse" -> SsePlan(len)
                    [] v = "avx32" -> AvxPlan("f32", TRUE, len)
                    [] v = "avx64" -> AvxPlan("f64", TRUE, len)
                    [] v = "avx32-noavx2" -> AvxPlan("f32", FALSE, len)
                    [] v = "avx64-noavx2" -> AvxPlan("f64", FALSE, len)

PlanInv ==
    LET t == PlanOf(variant, n) IN
    /\ ~HasPanic(t)
    /\ Known(t)
    /\ WellFormed(t)
    /\ TreeLen(t) = n
    /\ NoNaiveAbove32(t)
=============================================================================
