---------------------------- MODULE MC_Planners ----------------------------
(***************************************************************************)
(* Design-level check of the faithful planner models: for every length n   *)
(* in the sweep and every planner variant the designed plan contains no    *)
(* Panic node (C04), has length n, satisfies every constructor             *)
(* precondition (WellFormed), and has no naive node above 32 (C05).        *)
(* One initial state per (variant, n).                                     *)
(***************************************************************************)
EXTENDS PlannerAvx, Ops, TLC

CONSTANTS NMax, Extra, Variants

VARIABLES n, variant, verdict
Lens == (0..NMax) \cup Extra
Init == n \in Lens /\ variant \in Variants /\ verdict = "todo"

PlanOf(v, len) == CASE v = "scalar" -> ScalarPlan(len)
                    [] v = "sse" -> SsePlan(len)
                    [] v = "avx32" -> AvxPlan("f32", TRUE, len)
                    [] v = "avx64" -> AvxPlan("f64", TRUE, len)
                    [] v = "avx32-noavx2" -> AvxPlan("f32", FALSE, len)
                    [] v = "avx64-noavx2" -> AvxPlan("f64", FALSE, len)

PlanOk ==
    LET t == PlanOf(variant, n) IN
    /\ ~HasPanic(t)
    /\ Known(t)
    /\ WellFormed(t)
    /\ TreeLen(t) = n
    /\ NoNaiveAbove32(t)
    /\ variant = "scalar" /\ n >= 2 /\ n <= 65536 => OpBoundOk(n, TreeOps(t))       \* C05 work bound on the portable planner's design
\* the evaluation happens in a transition: worker threads have the large stack the deep recursions (trial division) need
Next == verdict = "todo" /\ verdict' = (IF PlanOk THEN "ok" ELSE "BAD") /\ UNCHANGED <<n, variant>>
Spec == Init /\ [][Next]_<<n, variant, verdict>>
PlanInv == verdict # "BAD"
=============================================================================
