---------------------------- MODULE MC_Planners ----------------------------
(***************************************************************************)
(* Design-level check of the faithful planner models: for every length n   *)
(* in the sweep and every planner variant the designed plan contains no    *)
(* Panic node (C04), has length n, satisfies every constructor             *)
(* precondition (WellFormed), and has no naive node above 32 (C05).        *)
(* One initial state per (variant, n).                                     *)
(***************************************************************************)
EXTENDS PlanScratch, Ops, TLC

CONSTANTS NMax, Extra, Variants

VARIABLES n, variant, verdict
Lens == (0..NMax) \cup Extra
Init == n \in Lens /\ variant \in Variants /\ verdict = "todo"

PlanOf(v, len) == CASE v = "scalar" -> ScalarPlan(len)
                    [] v = "sse" -> SsePlan(len)
                    [] v = "avx32" -> AvxPlan("f32", TRUE, len)
                    [] v = "avx64" -> AvxPlan("f64", TRUE, len)
                    [] v = "avx32-noavx2" -> AvxPlan("f32", FALSE, len)
                    [] v = "avx64-noavx2" -> AvxPlan("f64", FALSE, len)

\* SseRadix4::new_with_sse asserts base_len % (2 * COMPLEX_PER_VECTOR) = 0 (4 for f32, the stricter of the two element types)
SseRadix4BaseOk(t) == \A i \in DOMAIN t : t[i].k = "Radix4" => NodeLen(t, t[i].ch[1]) % 4 = 0 /\ NodeLen(t, t[i].ch[1]) > 0

\* BluesteinsAvx::new_with_avx asserts inner_fft_len % COMPLEX_PER_VECTOR = 0 (4 for f32, 2 for f64)
AvxBluesteinInnerOk(t, w) == \A i \in DOMAIN t : t[i].k = "BluesteinsBase" => t[i].p[2] % w = 0 /\ NodeLen(t, t[i].ch[1]) = t[i].p[2]

PlanOk ==
    LET t == PlanOf(variant, n) IN
    /\ ~HasPanic(t)
    /\ Known(t)
    /\ WellFormed(t)
    /\ TreeLen(t) = n
    /\ NoNaiveAbove32(t)
    /\ variant = "sse" => SseRadix4BaseOk(t)
    /\ PlanScratchOk(t, variant \in {"avx32", "avx64"})                              \* scratch plumbing composed over the whole plan (C03/C05/C08)
    /\ variant \in {"avx32", "avx32-noavx2"} => AvxBluesteinInnerOk(t, 4)
    /\ variant \in {"avx64", "avx64-noavx2"} => AvxBluesteinInnerOk(t, 2)
    /\ variant = "scalar" /\ n >= 2 /\ n <= 65536 => OpBoundOk(n, TreeOps(t))       \* C05 work bound on the portable planner's design
\* the evaluation happens in a transition: worker threads have the large stack the deep recursions (trial division) need
Next == verdict = "todo" /\ verdict' = (IF PlanOk THEN "ok" ELSE "BAD") /\ UNCHANGED <<n, variant>>
Spec == Init /\ [][Next]_<<n, variant, verdict>>
PlanInv == verdict # "BAD"
=============================================================================
