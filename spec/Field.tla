------------------------------- MODULE Field -------------------------------
(***************************************************************************)
(* Exact DFT semantics in R = GF(p)[i]/(i^2+1), p < 2^20 (DESIGN.md 3.3).  *)
(* Elements of R are pairs <<re, im>> of residues.  `Complex<T>` with      *)
(* T = GF(p) is this ring; the planned transform over GF(p) equals the DFT *)
(* with the root w (image of exp(-+2 pi i/n)) exactly iff its arithmetic   *)
(* circuit is right.                                                       *)
(***************************************************************************)
EXTENDS Arith

COne  == <<1, 0>>
CZero == <<0, 0>>
CAdd(a, b, p) == <<AddMod(a[1], b[1], p), AddMod(a[2], b[2], p)>>
CSub(a, b, p) == <<SubMod(a[1], b[1], p), SubMod(a[2], b[2], p)>>
CMul(a, b, p) == <<SubMod(MulMod(a[1], b[1], p), MulMod(a[2], b[2], p), p),
                   AddMod(MulMod(a[1], b[2], p), MulMod(a[2], b[1], p), p)>>
CConj(a, p)   == <<a[1], (p - a[2]) % p>>
CScale(a, m, p) == <<MulMod(a[1], m % p, p), MulMod(a[2], m % p, p)>>

RECURSIVE CPow(_, _, _)
CPow(w, e, p) == IF e = 0 THEN COne
                 ELSE LET h == CPow(w, e \div 2, p)
                          s == CMul(h, h, p)
                      IN IF e % 2 = 1 THEN CMul(s, w, p) ELSE s

\* <<w^0, w^1, ..., w^(n-1)>>
RECURSIVE PowSeq(_, _, _)
PowSeq(w, n, p) == IF n = 0 THEN << >>
                   ELSE IF n = 1 THEN <<COne>>
                   ELSE LET s == PowSeq(w, n - 1, p) IN Append(s, CMul(s[n - 1], w, p))

\* w is a primitive n-th root of unity of norm one (both components of R ~ GF(p) x GF(p) then have order n)
PrimitiveRoot(w, n, p) ==
    LET wp == PowSeq(w, n, p) IN
    /\ CMul(wp[n], w, p) = COne
    /\ \A d \in 2..n : wp[d] # COne
    /\ CMul(w, CConj(w, p), p) = COne

RECURSIVE DftSum(_, _, _, _, _, _)
DftSum(x, wp, k, j, n, p) ==
    IF j = n THEN CZero
    ELSE CAdd(CMul(x[j + 1], wp[((j * k) % n) + 1], p), DftSum(x, wp, k, j + 1, n, p), p)

\* the DFT of x with root w:  X[k] = sum_j x[j] w^(jk)
Dft(x, w, p) == LET n == Len(x) wp == PowSeq(w, n, p) IN [k \in 1..n |-> DftSum(x, wp, k - 1, 0, n, p)]

\* judgement of one small-field observation made on the real library
SmallDftOk(p, n, w, x, y) ==
    /\ p < 1048576 /\ IsPrime(p)
    /\ Len(x) = n /\ Len(y) = n
    /\ n >= 1
    /\ PrimitiveRoot(w, n, p)
    /\ y = Dft(x, w, p)
=============================================================================
