SPECIFICATION Spec
CONSTANTS
  S = 7
INVARIANT Inv
CHECK_DEADLOCK FALSE
