SPECIFICATION TraceSpec
CONSTANT Prop = "C11"
INVARIANT TraceInv
POSTCONDITION TraceAccepted
CHECK_DEADLOCK FALSE
