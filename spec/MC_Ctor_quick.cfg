SPECIFICATION Spec
CONSTANTS
  MaxLen = 400
  D1Den = 11
  SeedDen = 13
  SampleDen = 29
  SampleRes = 0
  Depth2On = TRUE
  PrimeMax = 6000
  BlueMax = 260
  BothKinds = FALSE
INVARIANT TreeInv
CHECK_DEADLOCK FALSE
