SPECIFICATION TraceSpec
CONSTANT Prop = "C05"
INVARIANT TraceInv
POSTCONDITION TraceAccepted
CHECK_DEADLOCK FALSE
