----------------------------- MODULE Dataflow -----------------------------
(***************************************************************************)
(* Faithful layer: which memory cells every output element of the portable *)
(* algorithms depends on (C07 chunk isolation, C08 scratch purity, C15     *)
(* immutable input), at the granularity of the code's buffer operations.   *)
(*                                                                         *)
(* A cell holds a TAINT: the set of sources its value was computed from.   *)
(* Sources are the input elements In(1..n), the initial contents of the    *)
(* scratch buffer "S" and the initial contents of the output buffer "O".   *)
(* In a multi-chunk call the same scratch buffer is handed to every chunk, *)
(* so "S" also stands for whatever the previous chunk left there: an       *)
(* output that depends on "S" depends on its neighbour chunk (C07) and on  *)
(* the caller's scratch contents (C08).                                    *)
(*                                                                         *)
(* Each perform_fft_* of src/algorithm/*.rs is transcribed as a sequence   *)
(* of buffer operations on three buffers (X = first data buffer, Y =       *)
(* second data buffer, Z = scratch): copies/permutations, zero fills,      *)
(* point-wise constant multiplications (taint preserving), additions of    *)
(* two cells (taint union) and child transforms.  A child transform is     *)
(* assumed to satisfy the property itself (each output chunk depends on    *)
(* exactly its input chunk; its scratch and, for the out-of-place entry,   *)
(* its input are left UNSPECIFIED = may hold anything derived from what it *)
(* could read).  The invariant checked by TLC is the induction step: then  *)
(* the wrapper satisfies it too - every output depends on all inputs of    *)
(* its chunk and on nothing else, and the immutable entry leaves X as it   *)
(* was.                                                                    *)
(***************************************************************************)
EXTENDS Arith

In(j) == <<"in", j>>
AllIn(n) == {In(j) : j \in 1..n}
S0 == <<"scratch0">>
O0 == <<"output0">>

UnionOf(seq, lo, hi) == UNION {seq[i] : i \in lo..hi}

\* ---- primitive buffer operations on sequences of taints --------------------------------------------
Permute(src, perm) == [i \in 1..Len(perm) |-> src[perm[i]]]                 \* dst[i] = src[perm[i]]
ZeroFill(seq, lo, hi) == [i \in 1..Len(seq) |-> IF i >= lo /\ i <= hi THEN {} ELSE seq[i]]
\* child FFT in place on data[lo..hi] in chunks of c: every cell of a chunk now depends on the whole chunk
FftInPlace(data, lo, hi, c) ==
    [i \in 1..Len(data) |->
        IF i >= lo /\ i <= hi
        THEN LET k == (i - lo) \div c IN UnionOf(data, lo + k * c, lo + k * c + c - 1)
        ELSE data[i]]
\* what a child may leave in the workspace it was given (cells lo..hi of ws): anything derived from what it could read
Clobber(ws, lo, hi, readable) == [i \in 1..Len(ws) |-> IF i >= lo /\ i <= hi THEN ws[i] \cup readable ELSE ws[i]]
\* cross-FFT layer of radix r over blocks of cur*r cells: cells of the same column of a block are combined
Layer(data, cur, r) ==
    [i \in 1..Len(data) |->
        LET blk == cur * r  b == (i - 1) \div blk  col == (i - 1) % cur IN
        UNION {data[b * blk + col + j * cur + 1] : j \in 0..(r - 1)}]

TransposePerm(w, h) == [i \in 1..(w * h) |-> ((i - 1) % h) * w + ((i - 1) \div h) + 1]
Reverse(n) == [i \in 1..n |-> n + 1 - i]                                    \* some fixed permutation (digit reversal, CRT maps, orbits)

\* memory = [X, Y, Z]; the three entry points present their buffers as follows:
\*   in-place  : X = buffer (input and output), Y unused,  Z = scratch
\*   out-of-pl.: X = input (may be clobbered),  Y = output, Z = scratch
\*   immutable : X = input (must stay intact),  Y = output, Z = scratch
Mem(x, y, z) == [X |-> x, Y |-> y, Z |-> z]
InitMem(n, zlen) == Mem([i \in 1..n |-> {In(i)}], [i \in 1..n |-> {O0}], [i \in 1..zlen |-> {S0}])
Readable(seq) == UnionOf(seq, 1, Len(seq))

(***************************************************************************)
(* MixedRadix(w, h): six-step (mixed_radix.rs).  wi/wo/hi are the          *)
(* children's advertised scratch needs; zlen is this node's advertised     *)
(* length for the entry (Scratch.tla).  `ZeroPad` models the hypothetical  *)
(* omission of a workspace initialisation (for Bluestein below).           *)
(***************************************************************************)
MixedRadixImmut(m, w, h) ==
    LET n  == w * h
        y1 == Permute(m.X, TransposePerm(w, h))                       \* transpose input -> output
        y2 == FftInPlace(y1, 1, n, h)                                 \* height FFTs in place on output, scratch = all of Z
        z2 == Clobber(m.Z, 1, Len(m.Z), Readable(y1))
        z3 == [i \in 1..Len(z2) |-> IF i <= n THEN Permute(y2, TransposePerm(h, w))[i] ELSE z2[i]]   \* transpose output -> Z[..n]
        z4 == FftInPlace(z3, 1, n, w)                                 \* width FFTs in place on Z[..n], scratch = Z[n..]
        z5 == Clobber(z4, n + 1, Len(z4), UnionOf(z3, 1, n))
        y6 == Permute(SubSeq(z5, 1, n), TransposePerm(w, h))          \* transpose Z[..n] -> output
    IN Mem(m.X, y6, z5)

MixedRadixInplace(m, w, h) ==
    LET n  == w * h
        z1 == [i \in 1..Len(m.Z) |-> IF i <= n THEN Permute(m.X, TransposePerm(w, h))[i] ELSE m.Z[i]]  \* buffer -> Z[..n]
        \* height FFTs in place on Z[..n]; workspace = Z[n..] if longer than the buffer, else the buffer itself
        useInner == Len(m.Z) - n > n
        z2 == FftInPlace(z1, 1, n, h)
        z2b == IF useInner THEN Clobber(z2, n + 1, Len(z2), UnionOf(z1, 1, n)) ELSE z2
        x2 == IF useInner THEN m.X ELSE Clobber(m.X, 1, n, UnionOf(z1, 1, n))
        x4 == Permute(SubSeq(z2b, 1, n), TransposePerm(h, w))         \* Z[..n] -> buffer
        \* width FFTs out of place buffer -> Z[..n], workspace Z[n..]; the source buffer is clobbered
        z5 == [i \in 1..Len(z2b) |-> IF i <= n THEN FftInPlace(x4, 1, n, w)[i] ELSE z2b[i] \cup Readable(x4)]
        x5 == Clobber(x4, 1, n, Readable(x4))
        x6 == Permute(SubSeq(z5, 1, n), TransposePerm(w, h))          \* Z[..n] -> buffer
    IN Mem(x6, m.Y, z5)

MixedRadixOop(m, w, h) ==
    LET n  == w * h
        y1 == Permute(m.X, TransposePerm(w, h))
        useZ == Len(m.Z) > n
        y2 == FftInPlace(y1, 1, n, h)                                 \* workspace: Z if longer than the input, else the input
        x2 == IF useZ THEN m.X ELSE Clobber(m.X, 1, n, Readable(y1))
        z2 == IF useZ THEN Clobber(m.Z, 1, Len(m.Z), Readable(y1)) ELSE m.Z
        x4 == Permute(y2, TransposePerm(h, w))                        \* output -> input
        x5 == FftInPlace(x4, 1, n, w)                                 \* workspace: Z or the output
        y5 == IF useZ THEN y2 ELSE Clobber(y2, 1, n, Readable(x4))
        z5 == IF useZ THEN Clobber(z2, 1, Len(z2), Readable(x4)) ELSE z2
        y6 == Permute(x5, TransposePerm(w, h))
    IN Mem(x5, y6, z5)

(***************************************************************************)
(* RadersAlgorithm (raders_algorithm.rs), n = m + 1.                       *)
(***************************************************************************)
RadersImmut(mem, n) ==
    LET m  == n - 1
        z1 == [i \in 1..Len(mem.Z) |-> IF i <= m THEN mem.X[Reverse(m)[i] + 1] ELSE mem.Z[i]]    \* gather by the orbit into Z[..m]
        z2 == FftInPlace(z1, 1, m, m)                                                               \* inner FFT, workspace Z[m..]
        z2b == Clobber(z2, m + 1, Len(z2), UnionOf(z1, 1, m))
        first == mem.X[1] \cup z2b[1]                                                               \* out[0] = in[0] + Z[0]
        z3 == [z2b EXCEPT ![1] = @ \cup mem.X[1]]                                                   \* Z[0] += conj(in[0])  (after the kernel multiply)
        z4 == FftInPlace(z3, 1, m, m)
        z4b == Clobber(z4, m + 1, Len(z4), UnionOf(z3, 1, m))
        y  == [i \in 1..n |-> IF i = 1 THEN first ELSE z4b[Reverse(m)[i - 1]]]                       \* scatter by the inverse orbit
    IN Mem(mem.X, y, z4b)

RadersOop(mem, n) ==
    LET m  == n - 1
        useZ == Len(mem.Z) > 0
        y1 == [i \in 1..n |-> IF i = 1 THEN mem.Y[1] ELSE mem.X[Reverse(m)[i - 1] + 1]]          \* gather into output[1..]
        y2 == FftInPlace(y1, 2, n, m)                                                               \* inner FFT in place on output[1..]
        x2 == IF useZ THEN mem.X ELSE Clobber(mem.X, 2, n, UnionOf(y1, 2, n))                       \* workspace: Z, else input[1..]
        z2 == IF useZ THEN Clobber(mem.Z, 1, Len(mem.Z), UnionOf(y1, 2, n)) ELSE mem.Z
        y3 == [y2 EXCEPT ![1] = mem.X[1] \cup y2[2]]                                               \* out[0] = in[0] + out[1]
        x3 == [i \in 1..n |-> IF i = 1 THEN mem.X[1] ELSE IF i = 2 THEN y2[2] \cup mem.X[1] ELSE y2[i]]   \* input[1..] = conj(out * kernel); input[1] += conj(in[0])
        x4 == FftInPlace(x3, 2, n, m)                                                               \* second inner FFT on input[1..]; workspace Z or output[1..]
        y4 == IF useZ THEN y3 ELSE Clobber(y3, 2, n, UnionOf(x3, 2, n))
        z4 == IF useZ THEN Clobber(z2, 1, Len(z2), UnionOf(x3, 2, n)) ELSE z2
        y5 == [i \in 1..n |-> IF i = 1 THEN y3[1] ELSE x4[Reverse(m)[i - 1] + 1]]                   \* scatter input[1..] -> output[1..]
    IN Mem(x4, y5, z4)

RadersInplace(mem, n) ==
    LET m  == n - 1
        z1 == [i \in 1..Len(mem.Z) |-> IF i <= m THEN mem.X[Reverse(m)[i] + 1] ELSE mem.Z[i]]
        hasExtra == Len(mem.Z) - m > 0
        z2 == FftInPlace(z1, 1, m, m)
        z2b == IF hasExtra THEN Clobber(z2, m + 1, Len(z2), UnionOf(z1, 1, m)) ELSE z2
        \* without extra scratch the buffer tail X[2..] is the child's workspace
        x2 == IF hasExtra THEN mem.X ELSE Clobber(mem.X, 2, n, UnionOf(z1, 1, m))
        firstVal == mem.X[1]                                                                         \* saved before it is overwritten
        x3 == [x2 EXCEPT ![1] = firstVal \cup z2b[1]]
        z3 == [z2b EXCEPT ![1] = @ \cup firstVal]
        z4 == FftInPlace(z3, 1, m, m)
        z4b == IF hasExtra THEN Clobber(z4, m + 1, Len(z4), UnionOf(z3, 1, m)) ELSE z4
        x5 == [i \in 1..n |-> IF i = 1 THEN x3[1] ELSE z4b[Reverse(m)[i - 1]]]
    IN Mem(x5, mem.Y, z4b)

(***************************************************************************)
(* BluesteinsAlgorithm (bluesteins_algorithm.rs): inner length mlen >= 2n-1*)
(* ZeroFrom..ZeroTo is the padding range the code clears on every call     *)
(* (the code: n+1 .. mlen).                                                *)
(***************************************************************************)
BluesteinsAny(mem, n, mlen, zeroFrom, zeroTo, inplace) ==
    LET z1 == [i \in 1..Len(mem.Z) |-> IF i <= n THEN mem.X[i] ELSE mem.Z[i]]                      \* Z[i] = in[i] * chirp[i]
        z1b == ZeroFill(z1, zeroFrom, zeroTo)
        z2 == FftInPlace(z1b, 1, mlen, mlen)
        z2b == Clobber(z2, mlen + 1, Len(z2), UnionOf(z1b, 1, mlen))
        z3 == FftInPlace(z2b, 1, mlen, mlen)                                                         \* multiply by the kernel, conj, second FFT
        z3b == Clobber(z3, mlen + 1, Len(z3), UnionOf(z2b, 1, mlen))
        res == [i \in 1..n |-> z3b[i]]                                                               \* out[i] = conj(Z[i]) * chirp[i]
    IN IF inplace THEN Mem(res, mem.Y, z3b) ELSE Mem(mem.X, res, z3b)

(***************************************************************************)
(* Radix4 / Radix3 / RadixN (digit-reversed transpose, base FFTs, layers). *)
(* fs = radixes innermost first; base = base length.                       *)
(***************************************************************************)
RECURSIVE Layers(_, _, _)
Layers(data, cur, fs) == IF fs = << >> THEN data ELSE Layers(Layer(data, cur, Head(fs)), cur * Head(fs), Tail(fs))

RadixImmut(mem, base, fs) ==
    LET n  == base * SeqProduct(fs)
        y1 == Permute(mem.X, Reverse(n))                              \* digit-reversed transpose input -> output
        y2 == FftInPlace(y1, 1, n, base)                              \* base FFTs in place, workspace = all of Z
        z2 == Clobber(mem.Z, 1, Len(mem.Z), Readable(y1))
    IN Mem(mem.X, Layers(y2, base, fs), z2)

RadixOop(mem, base, fs) ==
    LET n  == base * SeqProduct(fs)
        y1 == Permute(mem.X, Reverse(n))
        useZ == Len(mem.Z) > 0
        y2 == FftInPlace(y1, 1, n, base)                              \* workspace: Z if any, else the input buffer
        x2 == IF useZ THEN mem.X ELSE Clobber(mem.X, 1, n, Readable(y1))
        z2 == IF useZ THEN Clobber(mem.Z, 1, Len(mem.Z), Readable(y1)) ELSE mem.Z
    IN Mem(x2, Layers(y2, base, fs), z2)

\* boilerplate_fft_oop!: in place = out of place into Z[..n] with Z[n..] as scratch, then copy back
RadixInplace(mem, base, fs) ==
    LET n  == base * SeqProduct(fs)
        sub == RadixOop(Mem(mem.X, SubSeq(mem.Z, 1, n), SubSeq(mem.Z, n + 1, Len(mem.Z))), base, fs)
    IN Mem(sub.Y, mem.Y, sub.Y \o sub.Z)

(***************************************************************************)
(* AVX mixed-radix stage Rxn (avx_mixed_radix.rs): column butterflies      *)
(* across the r rows (with twiddles), the inner transform on every row of  *)
(* m = len/r elements, a transpose.                                        *)
(***************************************************************************)
AvxRadixImmut(mem, r, m) ==
    LET n  == r * m
        z1 == [i \in 1..Len(mem.Z) |-> IF i <= n THEN Layer(mem.X, m, r)[i] ELSE mem.Z[i]]    \* column butterflies input -> Z[..n]
        z2 == FftInPlace(z1, 1, n, m)                                                           \* row FFTs in place, workspace Z[n..]
        z3 == Clobber(z2, n + 1, Len(z2), UnionOf(z1, 1, n))
    IN Mem(mem.X, Permute(SubSeq(z3, 1, n), TransposePerm(m, r)), z3)

AvxRadixInplace(mem, r, m) ==
    LET n  == r * m
        x1 == Layer(mem.X, m, r)                                                                \* column butterflies in place
        z2 == [i \in 1..Len(mem.Z) |-> IF i <= n THEN FftInPlace(x1, 1, n, m)[i] ELSE mem.Z[i] \cup Readable(x1)]   \* rows out of place -> Z[..n]
    IN Mem(Permute(SubSeq(z2, 1, n), TransposePerm(m, r)), mem.Y, z2)

AvxRadixOop(mem, r, m) ==
    LET n  == r * m
        x1 == Layer(mem.X, m, r)
        useZ == Len(mem.Z) > 0
        x2 == FftInPlace(x1, 1, n, m)                                                           \* rows in place on the input; workspace Z, else the output
        z2 == IF useZ THEN Clobber(mem.Z, 1, Len(mem.Z), Readable(x1)) ELSE mem.Z
    IN Mem(x2, Permute(x2, TransposePerm(m, r)), z2)

(***************************************************************************)
(* The property.                                                           *)
(***************************************************************************)
\* every output element depends on every input element of its chunk and on nothing else
OutputPure(out, n) == \A i \in 1..n : out[i] = AllIn(n)
\* the immutable entry leaves the input exactly as it was
InputIntact(x, n) == \A i \in 1..n : x[i] = {In(i)}
=============================================================================
