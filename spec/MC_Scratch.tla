----------------------------- MODULE MC_Scratch -----------------------------
(***************************************************************************)
(* Exhaustive check of the scratch plumbing: for every wrapper kind, every *)
(* pair of child lengths and every combination of child scratch needs      *)
(* inside the bounds (including needs far above the child's own length, as *)
(* produced by nested Bluestein instances), the scratch that the wrapper   *)
(* advertises suffices for every child call of every entry point and every *)
(* split is in range.  One initial state per combination.                  *)
(***************************************************************************)
EXTENDS Scratch, TLC

CONSTANTS Lens, Needs

PairKinds  == {"MixedRadix", "GoodThomasAlgorithm", "MixedRadixSmall", "GoodThomasAlgorithmSmall"}
UnaryKinds == {"RadersAlgorithm", "BluesteinsAlgorithm", "Radix4", "Radix3", "RadixN", "AvxRadix"}

Child(len, a, b, c) == [len |-> len, scr |-> <<a, b, c>>]
Children == {Child(n, a, b, c) : n \in Lens, a \in Needs, b \in Needs, c \in Needs}

VARIABLES k, ch
Init ==
    \/ /\ k \in PairKinds
       /\ ch \in {<<x, y>> : x \in {z \in Children : z.scr[3] = 0}, y \in {z \in Children : z.scr[3] = 0}}   \* the immutable need of a child is never used by a wrapper
    \/ /\ k \in UnaryKinds
       /\ ch \in {<<x>> : x \in {z \in Children : z.scr[3] = 0 /\ (k # "AvxRadix" => z.scr[2] = 0)}}
Next == UNCHANGED <<k, ch>>
Spec == Init /\ [][Next]_<<k, ch>>

NodeLen ==
    CASE k \in PairKinds -> ch[1].len * ch[2].len
      [] k = "RadersAlgorithm" -> ch[1].len + 1
      [] k = "BluesteinsAlgorithm" -> (ch[1].len + 1) \div 2
      [] OTHER -> ch[1].len * 4

Applicable ==
    /\ k \in {"MixedRadixSmall", "GoodThomasAlgorithmSmall"} => SmallPre(ch)
    /\ k = "GoodThomasAlgorithm" => Gcd(ch[1].len, ch[2].len) = 1

SufficesInv == Applicable => Suffices(k, NodeLen, ch)
\* the advertised lengths stay linear in the node's and the children's needs (C05, structural part)
LinearInv == Applicable =>
    \A e \in 1..3 : Scr(k, NodeLen, ch)[e] <= 2 * NodeLen + 2 * SeqMax(<<ch[1].scr[1], ch[1].scr[2], ch[Len(ch)].scr[1], ch[Len(ch)].scr[2]>>)
Inv == SufficesInv /\ LinearInv
=============================================================================
