SPECIFICATION Spec
CONSTANTS
  MinP = 3
  MaxP = 6300
  Strict = FALSE
INVARIANTS FactorsOk RootOk LoopInv
CHECK_DEADLOCK FALSE
