SPECIFICATION Spec
CONSTANTS
  MaxThreads = 3
  MaxCalls = 3
  LeaksEnv = TRUE
INVARIANT HistoryIndependent
CHECK_DEADLOCK FALSE
