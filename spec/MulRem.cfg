SPECIFICATION Spec
CONSTANTS
  S = 9
INVARIANT Inv
CHECK_DEADLOCK FALSE
